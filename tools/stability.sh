#!/bin/bash
# usage: tools/stability.sh [<id> ...]  - runs each check under several symbol-name salts (GOVC_SALT) in selftest mode
# on the real tree with output redirected (evidence untouched) and lists obligations that are not discharged under
# some salt: those proofs depend on solver luck and must be made robust (better triggers, split invariants).
cd /verif
ids=${*:-$(python3 -c "import json;print(' '.join(c['property_id'] for c in json.load(open('MANIFEST.json'))['checks']))")}
out=$(mktemp -d "${TMPDIR:-/var/tmp}/govc_stab.XXXXXX")
for id in $ids; do
  for salt in "" _a _zq _K7; do
    r=$(GOVC_SALT=$salt GOVC_OUT=$out GOVC_SELFTEST=1 ./bin/govc check -prop $id -tier quick 2>&1 | grep -E "^VIOLATION|^property=" | sed 's/ replay=[^ ]*//' | cut -c1-260)
    echo "$id salt='$salt' :: $(echo "$r" | tail -1 | cut -d' ' -f3-6)"; echo "$r" | grep '^VIOLATION' | sed 's/^/    /'
  done
done
rm -rf "$out"

#!/usr/bin/env python3
"""Hand-made property-breaking changes (one textual replacement each) -> selftest/local/<prop>/<name>.patch.
Regenerate with: python3 tools/local_mutants.py   (reads /repo's working tree, writes only under /verif)."""
import difflib, os, sys

M = []
def mut(prop, name, file, old, new):
    M.append((prop, name, file, old, new))

SS = "rolling-shutter/keyperimpl/shutterservice/"
# ---- C02 ----
mut("C02", "dkg_success_ignored", SS+"newblock.go", "if !dkgResult.Success {", "if !dkgResult.Success && keyperConfigIndex < 0 {")
mut("C02", "membership_ignored", SS+"newblock.go", "if !isKeyper {", "if !isKeyper && keyperConfigIndex < 0 {")
mut("C02", "timestamp_not_strict", SS+"newblock.go", "if event.Timestamp >= int64(triggeredBlock.Header.Time) {", "if event.Timestamp > int64(triggeredBlock.Header.Time) {")
mut("C02", "activation_off_by_one", SS+"newblock.go", "if eon.ActivationBlockNumber > triggeredBlock.Header.Number.Int64() {", "if eon.ActivationBlockNumber > triggeredBlock.Header.Number.Int64()+1 {")
mut("C02", "undecryptable_not_skipped", SS+"newblock.go", '''				Msg("skipping event while creating triggers as no decryptable eon could be resolved")
			continue
''', '''				Msg("skipping event while creating triggers as no decryptable eon could be resolved")
''')
mut("C02", "trigger_block_plus_one", SS+"newblock.go", "BlockNumber:       uint64(lastEonBlock[eon]),", "BlockNumber:       uint64(lastEonBlock[eon]) + 1,")
mut("C02", "equal_timestamp_triggers", SS+"newblock.go", "		if trigger {", "		if trigger || event.Timestamp == int64(block.Header.Time) {")
mut("C02", "expiry_off_by_one", SS+"triggerprocessor.go", "if eventLog.BlockNumber > uint64(triggerRegisteredEvent.ExpirationBlockNumber) {", "if eventLog.BlockNumber > uint64(triggerRegisteredEvent.ExpirationBlockNumber)+1 {")
mut("C02", "unmatched_log_fires", SS+"triggerprocessor.go", '''					Msg("skipping log that matched filter but not additional predicates")
				continue
''', '''					Msg("skipping log that matched filter but not additional predicates")
''')
mut("C02", "event_trigger_undecryptable", SS+"newblock.go", '''		if !decryptable {
			continue
		}

		identities :=''', '''		if !decryptable && len(firedTriggers) > 3 {
			continue
		}

		identities :=''')
mut("C02", "fired_grouped_by_wrong_eon", SS+"newblock.go", "firedTriggersByEon[firedTrigger.Eon] = append(firedTriggersByEon[firedTrigger.Eon], firedTrigger)", "firedTriggersByEon[firedTrigger.Eon&0xff] = append(firedTriggersByEon[firedTrigger.Eon&0xff], firedTrigger)")
mut("C02", "fired_row_wrong_block", SS+"triggerprocessor.go", "BlockNumber:    int64(event.Log.BlockNumber),", "BlockNumber:    event.EventTriggerRegisteredEvent.BlockNumber,")

def main():
    n = 0
    for prop, name, file, old, new in M:
        src = open(os.path.join("/repo", file)).read()
        if src.count(old) != 1:
            print("SKIP %s/%s: pattern occurs %d times" % (prop, name, src.count(old))); continue
        dst = src.replace(old, new)
        d = "".join(difflib.unified_diff(src.splitlines(True), dst.splitlines(True), "a/" + file, "b/" + file))
        os.makedirs("/verif/selftest/local/" + prop, exist_ok=True)
        open("/verif/selftest/local/%s/%s.patch" % (prop, name), "w").write(d)
        n += 1
    print("wrote", n, "patches")

if __name__ == "__main__":
    main()

#!/usr/bin/env python3
"""Hand-made property-breaking changes (one textual replacement each) -> selftest/local/<prop>/<name>.patch.
Regenerate with: python3 tools/local_mutants.py   (reads /repo's working tree, writes only under /verif)."""
import difflib, os, sys

M = []
def mut(prop, name, file, old, new):
    M.append((prop, name, file, old, new))

SS = "rolling-shutter/keyperimpl/shutterservice/"
# ---- C02 ----
mut("C02", "dkg_success_ignored", SS+"newblock.go", "if !dkgResult.Success {", "if !dkgResult.Success && keyperConfigIndex < 0 {")
mut("C02", "membership_ignored", SS+"newblock.go", "if !isKeyper {", "if !isKeyper && keyperConfigIndex < 0 {")
mut("C02", "timestamp_not_strict", SS+"newblock.go", "if event.Timestamp >= int64(triggeredBlock.Header.Time) {", "if event.Timestamp > int64(triggeredBlock.Header.Time) {")
mut("C02", "activation_off_by_one", SS+"newblock.go", "if eon.ActivationBlockNumber > triggeredBlock.Header.Number.Int64() {", "if eon.ActivationBlockNumber > triggeredBlock.Header.Number.Int64()+1 {")
mut("C02", "undecryptable_not_skipped", SS+"newblock.go", '''				Msg("skipping event while creating triggers as no decryptable eon could be resolved")
			continue
''', '''				Msg("skipping event while creating triggers as no decryptable eon could be resolved")
''')
mut("C02", "trigger_block_plus_one", SS+"newblock.go", "BlockNumber:       uint64(lastEonBlock[eon]),", "BlockNumber:       uint64(lastEonBlock[eon]) + 1,")
mut("C02", "equal_timestamp_triggers", SS+"newblock.go", "		if trigger {", "		if trigger || event.Timestamp == int64(block.Header.Time) {")
mut("C02", "expiry_off_by_one", SS+"triggerprocessor.go", "if eventLog.BlockNumber > uint64(triggerRegisteredEvent.ExpirationBlockNumber) {", "if eventLog.BlockNumber > uint64(triggerRegisteredEvent.ExpirationBlockNumber)+1 {")
mut("C02", "unmatched_log_fires", SS+"triggerprocessor.go", '''					Msg("skipping log that matched filter but not additional predicates")
				continue
''', '''					Msg("skipping log that matched filter but not additional predicates")
''')
mut("C02", "event_trigger_undecryptable", SS+"newblock.go", '''		if !decryptable {
			continue
		}

		identities :=''', '''		if !decryptable && len(firedTriggers) > 3 {
			continue
		}

		identities :=''')
mut("C02", "fired_grouped_by_wrong_eon", SS+"newblock.go", "firedTriggersByEon[firedTrigger.Eon] = append(firedTriggersByEon[firedTrigger.Eon], firedTrigger)", "firedTriggersByEon[firedTrigger.Eon&0xff] = append(firedTriggersByEon[firedTrigger.Eon&0xff], firedTrigger)")
mut("C02", "fired_row_wrong_block", SS+"triggerprocessor.go", "BlockNumber:    int64(event.Log.BlockNumber),", "BlockNumber:    event.EventTriggerRegisteredEvent.BlockNumber,")

SE = "rolling-shutter/keyper/shutterevents/"
# ---- C14 ----
mut("C14", "batchconfig_index_from_threshold", SE+"events.go", '''				Key:   "ConfigIndex",
				Value: fmt.Sprintf("%d", bc.KeyperConfigIndex),''', '''				Key:   "ConfigIndex",
				Value: fmt.Sprintf("%d", bc.Threshold),''')
mut("C14", "eonstarted_swapped_reads", SE+"events.go", '''	eon, err := decodeUint64(ev.Attributes[0].Value)
	if err != nil {
		return nil, err
	}
	activationBlockNumber, err := decodeUint64(ev.Attributes[1].Value)''', '''	eon, err := decodeUint64(ev.Attributes[1].Value)
	if err != nil {
		return nil, err
	}
	activationBlockNumber, err := decodeUint64(ev.Attributes[0].Value)''')
mut("C14", "uint_parsed_base16", SE+"marshal.go", "v, err := strconv.ParseUint(val, 10, 64)", "v, err := strconv.ParseUint(val, 16, 64)")
mut("C14", "addresses_joined_with_semicolon", SE+"marshal.go", '''		hexstrings = append(hexstrings, a.Hex())
	}
	return strings.Join(hexstrings, ",")''', '''		hexstrings = append(hexstrings, a.Hex())
	}
	return strings.Join(hexstrings, ";")''')
mut("C14", "expect_attributes_off_by_one", SE+"events.go", "if len(ev.Attributes) < len(names) {", "if len(ev.Attributes) < len(names)-1 {")
mut("C14", "polyeval_key_renamed_on_one_side", SE+"events.go", '''err := expectAttributes(ev, "Sender", "Eon", "Receivers", "EncryptedEvals")''', '''err := expectAttributes(ev, "Sender", "Eon", "Receivers", "Evals")''')
mut("C14", "apology_height_dropped", SE+"events.go", '''	return &Apology{
		Height:   height,''', '''	return &Apology{
		Height:   0,''')
mut("C14", "accusation_dispatched_to_apology", SE+"events.go", '''	case evtype.Accusation:
		return makeAccusation(ev, height)''', '''	case evtype.Accusation:
		return makeApology(ev, height)''')
mut("C14", "first_byte_sequence_dropped", SE+"marshal.go", '''		bs, err := hexutil.Decode(v)
		if err != nil {
			return [][]byte{}, err
		}
		res = append(res, bs)''', '''		bs, err := hexutil.Decode(v)
		if err != nil {
			return [][]byte{}, err
		}
		if len(bs) > 0 {
			res = append(res, bs)
		}''')
mut("C14", "checkin_key_std_base64", SE+"marshal.go", "data, err := base64.RawURLEncoding.DecodeString(val)", "data, err := base64.RawStdEncoding.DecodeString(val)")

# ---- C17 (RLP coding of value predicates) ----
mut("C17", "decoder_reads_bytes_before_ints", SS+"eventtrigger.go", """	intArgs := []*big.Int{}
	for i := 0; i < op.NumIntArgs(); i++ {""", """	intArgs := []*big.Int{}
	for i := 0; i < op.NumByteArgs(); i++ {""")
mut("C17", "encoder_writes_bytes_first", SS+"eventtrigger.go", """	elements = append(elements, uint64(p.Op))
	for _, intArg := range p.IntArgs {
		elements = append(elements, intArg)
	}
	for _, byteArg := range p.ByteArgs {
		elements = append(elements, byteArg)
	}""", """	elements = append(elements, uint64(p.Op))
	for _, byteArg := range p.ByteArgs {
		elements = append(elements, byteArg)
	}
	for _, intArg := range p.IntArgs {
		elements = append(elements, intArg)
	}""")
mut("C17", "unmarshal_skips_validation", SS+"eventtrigger.go", """	if err := d.Validate(); err != nil {
		return fmt.Errorf("invalid EventTriggerDefinitionRLP: %w", err)
	}
	return nil""", """	if err := d.Validate(); err != nil && len(d.LogPredicates) > 8 {
		return fmt.Errorf("invalid EventTriggerDefinitionRLP: %w", err)
	}
	return nil""")
# ---- C05 (dispatch between validator and handlers) ----
P2P = "rolling-shutter/p2p/messaging.go"
mut("C05", "second_handler_registered_nil", P2P, "m.handlerRegistry[messageType] = append(fns, handlerFunc)",
    "var hf HandlerFunc\n\t\tif !exists {\n\t\t\thf = handlerFunc\n\t\t}\n\t\tm.handlerRegistry[messageType] = append(fns, hf)")
mut("C05", "dispatch_loop_off_by_one", P2P, """	for _, handlerFunc := range fns {
		msgs, err := handlerFunc(ctx, msg)""", """	for i := 0; i <= len(fns); i++ {
		handlerFunc := fns[i]
		msgs, err := handlerFunc(ctx, msg)""")

# ---- C10 (start-up: InitChain establishes the representation invariant) ----
APP = "rolling-shutter/app/app.go"
mut("C10", "initchain_duplicate_config_pointer", APP, "app.Configs = []*BatchConfig{&bc}", "app.Configs = []*BatchConfig{&bc, &bc}")
mut("C10", "initchain_no_config", APP, "app.Configs = []*BatchConfig{&bc}", "app.Configs = []*BatchConfig{}")
mut("C10", "initchain_votes_dropped", APP, "		app.CheckTxState = NewCheckTxState()\n		app.updateCheckTxMembers()", "		app.CheckTxState = NewCheckTxState()\n		app.ConfigVoting = ConfigVoting{}\n		app.updateCheckTxMembers()")
mut("C10", "initchain_nil_config_slot", APP, "app.Configs = []*BatchConfig{&bc}", "app.Configs = []*BatchConfig{&bc, nil}")

# ---- C12 (genesis power map) ----
PM = "rolling-shutter/app/powermap.go"
mut("C12", "makepowermap_power_constant", PM, "res[pubkey] += v.Power", "res[pubkey] += 1")
mut("C12", "makepowermap_bad_key_skipped", PM, """		pubkey, err := NewValidatorPubkey(data)
		if err != nil {
			return res, err
		}""", """		pubkey, err := NewValidatorPubkey(data)
		if err != nil {
			continue
		}""")
mut("C12", "validator_key_length_not_exact", "rolling-shutter/app/types.go", "if len(pubkey) != ed25519.PublicKeySize {", "if len(pubkey) < ed25519.PublicKeySize {")

# ---- C11 (threshold of distinct member votes) ----
VOT = "rolling-shutter/app/voting.go"
mut("C11", "config_threshold_minus_one", APP, "app.ConfigVoting.Outcome(int(app.LastConfig().Threshold))", "app.ConfigVoting.Outcome(int(app.LastConfig().Threshold) - 1)")
mut("C11", "config_votes_not_reset", APP, "		app.ConfigVoting = NewConfigVoting()\n		err = app.addConfig(bc)", "		err = app.addConfig(bc)")
mut("C11", "vote_filed_under_wrong_candidate", VOT, "			v.Votes[sender] = i\n			return", "			v.Votes[sender] = i / 2\n			return")
mut("C11", "histogram_counts_double", VOT, "numVotes[vote]++", "numVotes[vote] += 2")
mut("C11", "dkg_threshold_halved", APP, "threshold := int(dkg.Config.Threshold)", "threshold := int(dkg.Config.Threshold) / 2")
mut("C11", "dkg_restart_on_success_outcome", APP, "if !ok || success || outdatedEon {", "if !ok || (success && eon == 0) || outdatedEon {")
mut("C11", "outcome_ignores_zero_check", VOT, "if votes > 0 && votes >= numRequiredVotes {", "if votes >= numRequiredVotes-1 {")

# ---- harmless edits (must-pass corpus): semantics-preserving changes that must NOT raise an alarm ----
H = []
def harm(prop, name, file, old, new, all=False):
    H.append((prop, name, file, old, new, all))

harm("C05", "dispatch_index_loop", "rolling-shutter/p2p/messaging.go", """	for _, handlerFunc := range fns {
		msgs, err := handlerFunc(ctx, msg)""", """	for i := 0; i < len(fns); i++ {
		handlerFunc := fns[i]
		msgs, err := handlerFunc(ctx, msg)""")
harm("C05", "addhandler_no_empty_slice", "rolling-shutter/p2p/messaging.go", """		if !exists {
			fns = []HandlerFunc{}
		}
		m.handlerRegistry[messageType] = append(fns, handlerFunc)""", """		_ = exists
		m.handlerRegistry[messageType] = append(fns, handlerFunc)""")
harm("C14", "rename_accumulator", SE+"marshal.go", "hexstrings", "parts", True)
harm("C14", "log_line_in_decoder", SE+"marshal.go", """	v, err := strconv.ParseUint(val, 10, 64)
	if err != nil {""", """	v, err := strconv.ParseUint(val, 10, 64)
	_ = len(val)
	if err != nil {""")
harm("C15", "rename_ranges", "rolling-shutter/medley/syncranges.go", "ranges", "out", True)
harm("C12", "rename_result_map", "rolling-shutter/app/powermap.go", """	res := make(Powermap)

	// Remove old keys
	for v := range oldpm {
		_, ok := newpm[v]
		if !ok {
			res[v] = 0
		}
	}

	// Update new keys
	for v, p := range newpm {
		if oldpm[v] != p {
			res[v] = p
		}
	}

	return res""", """	diff := make(Powermap)

	// Remove old keys
	for v := range oldpm {
		_, ok := newpm[v]
		if !ok {
			diff[v] = 0
		}
	}

	// Update new keys
	for v, p := range newpm {
		if oldpm[v] != p {
			diff[v] = p
		}
	}

	return diff""")
harm("C02", "rename_collected_events", SS+"newblock.go", "eventsToDecrypt", "due", True)
harm("C02", "reordered_independent_statements", SS+"newblock.go", """	coreKeyperDB := corekeyperdatabase.New(kpr.dbpool)
	serviceDB := servicedatabase.New(kpr.dbpool)

	firedTriggers, err :=""", """	serviceDB := servicedatabase.New(kpr.dbpool)
	coreKeyperDB := corekeyperdatabase.New(kpr.dbpool)

	firedTriggers, err :=""")
harm("C02", "extra_debug_log", SS+"newblock.go", """	if !decryptable {
		return false, nil
	}""", """	if !decryptable {
		log.Debug().Int64("keyper-set-index", event.Eon).Msg("not decryptable")
		return false, nil
	}""")
harm("C17", "extracted_helper", SS+"eventtrigger.go", """func (r *LogValueRef) IsTopic() bool {""", """func isTopicOffset(offset uint64) bool {
	return offset < 4
}

func (r *LogValueRef) IsTopic() bool {""")
harm("C19", "rename_gas_counter", "rolling-shutter/keyperimpl/gnosis/newslot.go", "gas", "usedGas", "word")
harm("C20", "rename_loop_row", "rolling-shutter/keyper/eonpkhandler.go", "eonPublicKey ", "pendingKey ", "ident:eonPublicKey")
harm("C06", "rename_signature_index", "rolling-shutter/keyperimpl/gnosis/handlers.go", "signatureIndex", "sigIdx", True)
harm("C01", "extra_log_on_duplicate", "rolling-shutter/keyper/epochkg/epochkg.go", """func (epochkg *EpochKG) addEpochSecretKeyShare(share *EpochSecretKeyShare) error {""", """func (epochkg *EpochKG) addEpochSecretKeyShare(share *EpochSecretKeyShare) error {
	_ = share.Sender""")
harm("C10", "comment_and_blank_lines", "rolling-shutter/app/app.go", """func (app *ShutterApp) DeliverTx(req abcitypes.RequestDeliverTx) abcitypes.ResponseDeliverTx {""", """// DeliverTx executes one transaction of a block.
//
// (documentation only)

func (app *ShutterApp) DeliverTx(req abcitypes.RequestDeliverTx) abcitypes.ResponseDeliverTx {""")
harm("C14", "range_loop_as_index_loop", SE+"marshal.go", """	var hexstrings []string
	for _, a := range v {
		hexstrings = append(hexstrings, hexutil.Encode(a))
	}""", """	var hexstrings []string
	for i := 0; i < len(v); i++ {
		hexstrings = append(hexstrings, hexutil.Encode(v[i]))
	}""")
harm("C02", "range_loop_as_index_loop", SS+"messagingmiddleware.go", """	for _, key := range keys.Keys {
		eons = append(eons, int64(keys.Eon))
		identities = append(identities, key.IdentityPreimage)
	}""", """	for i := 0; i < len(keys.Keys); i++ {
		eons = append(eons, int64(keys.Eon))
		identities = append(identities, keys.Keys[i].IdentityPreimage)
	}""")
harm("C17", "rename_rlp_elements", SS+"eventtrigger.go", "elements", "items", True)
harm("C20", "rename_gossip_message", "rolling-shutter/keyper/eonpkhandler.go", """	msg, err := p2pmsg.NewSignedEonPublicKey(
		pkh.config.InstanceID,
		eonPubKey.PublicKey,
		eonPubKey.ActivationBlock,
		eonPubKey.KeyperConfigIndex,
		eonPubKey.Eon,
		pkh.config.Ethereum.PrivateKey.Key,
	)
	if err != nil {
		return errors.Wrap(err, "error while signing EonPublicKey")
	}

	err = pkh.messaging.SendMessage(ctx, msg)""", """	signedKey, err := p2pmsg.NewSignedEonPublicKey(
		pkh.config.InstanceID,
		eonPubKey.PublicKey,
		eonPubKey.ActivationBlock,
		eonPubKey.KeyperConfigIndex,
		eonPubKey.Eon,
		pkh.config.Ethereum.PrivateKey.Key,
	)
	if err != nil {
		return errors.Wrap(err, "error while signing EonPublicKey")
	}

	err = pkh.messaging.SendMessage(ctx, signedKey)""")
harm("C04", "rename_unmarshalled_message", "rolling-shutter/p2p/messaging.go", "unmshl", "decoded", True)
harm("C10", "initchain_rename_genesis_state", "rolling-shutter/app/app.go", "genesisState", "genesis", True)
harm("C12", "makepowermap_rename_and_temp", "rolling-shutter/app/powermap.go", """		res[pubkey] += v.Power
	}
	return res, nil""", """		power := v.Power
		res[pubkey] += power
	}
	return res, nil""")
harm("C11", "outcome_threshold_named_temporary", "rolling-shutter/app/app.go", "	_, ok := app.ConfigVoting.Outcome(int(app.LastConfig().Threshold))", "	required := int(app.LastConfig().Threshold)\n	_, ok := app.ConfigVoting.Outcome(required)")
GN = "rolling-shutter/keyperimpl/gnosis/"
harm("C19", "trigger_rename_pointer", GN+"newslot.go", "txPointer", "startPointer", True)
harm("C19", "trigger_rename_eon_row", GN+"newslot.go", "eonStruct", "activeEon", True)
harm("C11", "batchconfig_rename_candidate", "rolling-shutter/app/app.go", """	bc, err := shutterevents.BatchConfigFromMessage(msg)
	if err != nil {
		return makeErrorResponse(fmt.Sprintf("Malformed BatchConfig message: %s", err))
	}

	if reflect.DeepEqual(*app.LastConfig(), bc) {""", """	proposed, err := shutterevents.BatchConfigFromMessage(msg)
	if err != nil {
		return makeErrorResponse(fmt.Sprintf("Malformed BatchConfig message: %s", err))
	}
	bc := proposed

	if reflect.DeepEqual(*app.LastConfig(), bc) {""")
harm("C11", "outcome_rename_index", "rolling-shutter/app/voting.go", """	idx, ok := v.outcomeIndex(numRequiredVotes)
	if !ok {
		var n T
		return n, false
	}
	return v.Candidates[idx], true""", """	winner, ok := v.outcomeIndex(numRequiredVotes)
	if !ok {
		var n T
		return n, false
	}
	return v.Candidates[winner], true""")
harm("C11", "maybestarteon_rename_flags", "rolling-shutter/app/app.go", """	success, ok := dkg.SuccessVoting.Outcome(threshold)
	// dismiss votes for Eon that was voted on successfully already
	outdatedEon := app.EONCounter > eon
	if !ok || success || outdatedEon {""", """	succeeded, decided := dkg.SuccessVoting.Outcome(threshold)
	// dismiss votes for Eon that was voted on successfully already
	outdatedEon := app.EONCounter > eon
	if !decided || succeeded || outdatedEon {""")
harm("C20", "broadcast_rename_message", "rolling-shutter/keyper/eonpkhandler.go", """	msg, err := p2pmsg.NewSignedEonPublicKey(
		pkh.config.InstanceID,
		eonPubKey.PublicKey,
		eonPubKey.ActivationBlock,
		eonPubKey.KeyperConfigIndex,
		eonPubKey.Eon,
		pkh.config.Ethereum.PrivateKey.Key,
	)
	if err != nil {
		return errors.Wrap(err, "error while signing EonPublicKey")
	}

	err = pkh.messaging.SendMessage(ctx, msg)""", """	signedKey, err := p2pmsg.NewSignedEonPublicKey(
		pkh.config.InstanceID,
		eonPubKey.PublicKey,
		eonPubKey.ActivationBlock,
		eonPubKey.KeyperConfigIndex,
		eonPubKey.Eon,
		pkh.config.Ethereum.PrivateKey.Key,
	)
	if err != nil {
		return errors.Wrap(err, "error while signing EonPublicKey")
	}

	err = pkh.messaging.SendMessage(ctx, signedKey)""")
harm("C10", "batchconfigfrommessage_rename_list", "rolling-shutter/keyper/shutterevents/batchconfig.go", "keypers", "members", True)
harm("C12", "makepowermap_rename_result", "rolling-shutter/app/powermap.go", """	res := make(Powermap)
	for _, v := range validators {
		data := v.PubKey.GetEd25519()
		if data == nil {
			return res, errors.Errorf("cannot handle key %s", v.PubKey)
		}
		pubkey, err := NewValidatorPubkey(data)
		if err != nil {
			return res, err
		}
		res[pubkey] += v.Power
	}
	return res, nil""", """	powers := make(Powermap)
	for _, v := range validators {
		data := v.PubKey.GetEd25519()
		if data == nil {
			return powers, errors.Errorf("cannot handle key %s", v.PubKey)
		}
		pubkey, err := NewValidatorPubkey(data)
		if err != nil {
			return powers, err
		}
		powers[pubkey] += v.Power
	}
	return powers, nil""")
harm("C09", "rename_vote_histogram", "rolling-shutter/app/voting.go", "numVotes", "tally", True)

def main():
    import re
    n = 0
    for prop, name, file, old, new in M:
        src = open(os.path.join("/repo", file)).read()
        if src.count(old) != 1:
            print("SKIP %s/%s: pattern occurs %d times" % (prop, name, src.count(old))); continue
        dst = src.replace(old, new)
        d = "".join(difflib.unified_diff(src.splitlines(True), dst.splitlines(True), "a/" + file, "b/" + file))
        os.makedirs("/verif/selftest/local/" + prop, exist_ok=True)
        open("/verif/selftest/local/%s/%s.patch" % (prop, name), "w").write(d)
        n += 1
    print("wrote", n, "must-fail patches")
    n = 0
    for prop, name, file, old, new, mode in H:
        src = open(os.path.join("/repo", file)).read()
        if mode is True:
            dst = re.sub(r"\b%s\b" % re.escape(old), new, src)
        elif mode == "word":
            dst = re.sub(r"\b%s\b" % re.escape(old), new, src)
        elif isinstance(mode, str) and mode.startswith("ident:"):
            dst = re.sub(r"\b%s\b" % re.escape(mode[6:]), new.strip(), src)
        else:
            if src.count(old) != 1:
                print("SKIP harmless %s/%s: pattern occurs %d times" % (prop, name, src.count(old))); continue
            dst = src.replace(old, new)
        if dst == src:
            print("SKIP harmless %s/%s: no change" % (prop, name)); continue
        d = "".join(difflib.unified_diff(src.splitlines(True), dst.splitlines(True), "a/" + file, "b/" + file))
        os.makedirs("/verif/selftest/harmless/" + prop, exist_ok=True)
        open("/verif/selftest/harmless/%s/%s.patch" % (prop, name), "w").write(d)
        n += 1
    print("wrote", n, "harmless patches")

if __name__ == "__main__":
    main()

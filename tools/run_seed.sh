#!/bin/bash
# usage: run_seed.sh <patch> <prop> [<prop> ...] : applies a seeded patch to /repo, runs the checks, reverts.
P=$1; shift
rm -rf /tmp/evidence_save && cp -r /verif/evidence /tmp/evidence_save
cd /repo && git apply "$P" || { echo "patch does not apply to /repo"; exit 2; }
for prop in "$@"; do
  ( cd /verif && timeout 900 ./check $prop quick 2>&1 | grep -E "^VIOLATION|^property=|ENGINE|UNSUPPORTED|NOT-PROVED" | cut -c1-250 )
done
git -C /repo checkout -q -- . 
rm -rf /verif/evidence && mv /tmp/evidence_save /verif/evidence
git -C /repo status --short | grep -v "^??" | head -3

#!/bin/bash
# Copies the contract files (comment-only) and the verif-tagged hook files (zz_hooks_verif.go: round-trip
# compositions for C14), all //go:build verif, from /verif/contracts/mirror into /repo
# and commits them there as a hook commit. Prints the commit id (if any).
set -e
cd /verif/contracts/mirror
changed=0
for f in $(find . -name 'zz_*_verif.go'); do
  dst=/repo/rolling-shutter/$f
  if ! cmp -s "$f" "$dst" || [ -n "$(git -C /repo status --short -- "rolling-shutter/$f")" ]; then
    mkdir -p "$(dirname "$dst")"; cp "$f" "$dst"; git -C /repo add "rolling-shutter/$f"; changed=1
  fi
done
if [ $changed = 1 ]; then
  git -C /repo commit -qm "verif hook: contract comments and verifier-only round-trip hooks (all files //go:build verif)" && git -C /repo rev-parse --short HEAD
fi

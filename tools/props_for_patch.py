#!/usr/bin/env python3
"""prints the ids of the claimed properties that have a unit in a package touched by the given patch"""
import json,sys,re,glob,os
patch=open(sys.argv[1]).read()
dirs=set()
for m in re.finditer(r'^\+\+\+ b/rolling-shutter/(.*)/[^/]+\.go', patch, re.M):
    dirs.add(m.group(1))
out=[]
claimed=[c['property_id'] for c in json.load(open('/verif/MANIFEST.json'))['checks']]
for f in sorted(glob.glob('/verif/props/*.json')):
    p=json.load(open(f))
    if p['id'] not in claimed: continue
    upk={u.split('::')[0] for u in p['units']}
    if dirs & upk: out.append(p['id'])
print(' '.join(out))

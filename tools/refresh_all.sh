#!/bin/bash
# Runs every claimed check (quick) on the current tree and validates manifest + evidence files.
cd /verif
ids=$(python3 -c "import json;print(' '.join(c['property_id'] for c in json.load(open('MANIFEST.json'))['checks']))")
rc=0
for id in $ids; do
  out=$(./check $id quick 2>&1); code=$?
  echo "$out" | grep -E "^property=|^VIOLATION|ENGINE" | tail -2
  [ $code -ne 0 ] && rc=1
done
python3-vt - <<'PY'
import json,jsonschema,glob
m=json.load(open('/verif/MANIFEST.json'))
jsonschema.validate(m,json.load(open('/root/.vp/MANIFEST.schema.json')))
sch=json.load(open('/root/.vp/EVIDENCE.schema.json'))
for c in m['checks']:
    e=json.load(open(c['evidence_file']))
    jsonschema.validate(e,sch)
    cov=e['coverage']
    assert cov['obligations']==cov['discharged'] and e.get('violations',0)==0, (c['property_id'],cov['obligations'],cov['discharged'])
print("manifest and evidence valid for",len(m['checks']),"checks")
PY
exit $rc

#!/usr/bin/env python3
"""Regenerates /verif/MANIFEST.json from the table below (kept in one place so it stays valid)."""
import json, subprocess, os

NA = {
 "C03": "quantifies over gossip delivery schedules and message loss between n processes; a function contract speaks about one call in one process, so no contract within reach states it (DESIGN.md section 6)",
 "C07": "Byzantine DKG agreement is a protocol-level theorem across n state machines whose argument lives in shlib/puredkg (outside /repo); no contract on /repo functions expresses it",
 "C08": "quantifies over crash points inside pgx/Postgres transactions; atomicity and durability are the database's, there is no Go-level contract whose obligations range over 'the process died here'",
 "C13": "rests on the encoding/gob reflection round trip of the whole application and on file-system crash semantics of write/sync/rename; neither is reachable by contracts on /repo code",
 "C16": "a relation between executions under different batchings over Postgres rows and an external chain; contracts would only restate hand-transcribed SQL semantics, i.e. prove a model",
 "C18": "quantifies over every spelling of a request path and over agreement between the middleware's regexp path matching and chi's routing: both are semantics of third-party libraries (regexp, kin-openapi, chi); a contract on /repo code can only state the three-line gate, which no path-spelling change would ever fail (DESIGN.md section 6)",
}

# property id -> (level text, level note, design ref, technique)
CLAIMED = {}

def claim(pid, text, note, ref, technique="contract-based deductive verification: weakest-precondition style VCs generated from go/ssa for the real functions, contracts as //@ comments, discharged by z3/z3-new/cvc5"):
    CLAIMED[pid] = (text, note, ref, technique)

def load_claims():
    p = "/verif/tools/claims.json"
    if os.path.exists(p):
        for pid, c in json.load(open(p)).items():
            claim(pid, c["text"], c["note"], c.get("ref", "DESIGN.md section 5"), c.get("technique") or
                  "contract-based deductive verification: VCs generated from go/ssa of the real functions against //@ contracts, discharged by z3 4.8.12 / z3 5.1.0 / cvc5 1.0")

PENDING_REASON = "not claimed (yet): the contracts for this property are not finished, so no check is registered; see DESIGN.md section 5 for the intended obligations"

def main():
    load_claims()
    all_ids = ["C%02d" % i for i in range(1, 21)]
    hooks = subprocess.run(["git", "-C", "/repo", "log", "--format=%h %s"], capture_output=True, text=True).stdout.splitlines()
    hook_commits = [l.split()[0] for l in hooks if "verif hook" in l]
    checks = []
    for pid in all_ids:
        if pid in CLAIMED:
            text, note, ref, tech = CLAIMED[pid]
            checks.append({
                "property_id": pid,
                "quick_cmd": "./check %s quick" % pid,
                "thorough_cmd": "./check %s thorough" % pid,
                "evidence_file": "/verif/evidence/%s.json" % pid,
                "replay_cmd_template": "./check --replay {path}",
                "engine": "govc",
                "level_claimed": {"category": "proof", "text": text, "design_ref": ref},
                "level_note": note,
                "technique": tech,
            })
    na = []
    for pid in all_ids:
        if pid in CLAIMED:
            continue
        na.append({"property_id": pid, "reason": NA.get(pid, PENDING_REASON)})
    m = {
        "version": 1,
        "setup_cmd": "cd /verif/govc && GOFLAGS=-mod=mod GOPROXY=off go build -o /verif/bin/govc .",
        "hooks": {
            "guard": "verif",
            "enable": "-tags verif (adds the comment-only files zz_contracts_verif.go that carry the //@ contracts, and keyper/shutterevents/zz_hooks_verif.go with eight unexported round-trip compositions MakeEvent(x.MakeABCIEvent(), h) used as observation points of C14)",
            "baseline_off_cmd": "cd /repo/rolling-shutter && GOFLAGS=-mod=mod GOPROXY=off go test -vet=off -count=1 -timeout 25m ./...",
            "source_commits": hook_commits,
            "add_only": True,
        },
        "engines": [{"name": "govc", "path": "/verif/govc", "serves_properties": sorted(CLAIMED),
                     "kind_free_text": "contract-based deductive verifier for Go written for this task: VC generation by forward symbolic execution over go/ssa with loop cuts and Houdini-selected invariants, modular calls by contract, discharged by racing z3 4.8.12, z3 5.1.0 and cvc5 1.0; counterexamples replayed on the real code via go test -overlay"}],
        "checks": checks,
        "not_applicable": na,
        "notes": "See DESIGN.md. Known findings and fixed defects: /verif/known_findings.json. Contracts: zz_contracts_verif.go files in /repo (mirror in /verif/contracts/mirror), assumed contracts of dependencies in /verif/contracts/externals.vspec.",
    }
    json.dump(m, open("/verif/MANIFEST.json", "w"), indent=1)
    print("claimed:", sorted(CLAIMED), "n/a:", [x["property_id"] for x in na])

if __name__ == "__main__":
    main()

#!/bin/bash
# usage: tools/musthold.sh [-j N] [<property-id> ...]
# Must-pass corpus: semantics-preserving edits (renamed locals, extra log lines, reordered independent
# statements, an extracted helper, comments) from selftest/harmless/<id>/*.patch are applied to a scratch copy of
# /repo's working tree (never to /repo) and the property's quick check is run on the copy. Expected: exit 0 and no
# VIOLATION line - a check that raises an alarm on a harmless edit is a false alarm. Exits 3 if any alarm is raised.
cd /verif
J=3
if [ "$1" = "-j" ]; then J=$2; shift 2; fi
want=" $* "
export GOFLAGS=-mod=mod GOPROXY=off
# solver processes per check: the CPUs are divided among the J checks running side by side
PROCS=${ST_PROCS:-$(( $(nproc) / J ))}; [ $PROCS -lt 2 ] && PROCS=2; export PROCS
run_one() {
  prop=$1; patch=$2
  s=$(mktemp -d "${TMPDIR:-/var/tmp}/govc_musthold.XXXXXX")
  rsync -a --exclude .git /repo/ "$s/"
  if ! (cd "$s" && patch -p1 -s --no-backup-if-mismatch < "$patch" >/dev/null 2>&1); then
    echo "MUSTHOLD skipped $prop $patch (does not apply)"; rm -rf "$s"; return
  fi
  out=$(GOVC_REPO="$s/rolling-shutter" GOVC_OUT="$s/out" GOVC_SELFTEST=1 GOVC_PROCS=$PROCS timeout 2400 /verif/bin/govc check -prop "$prop" -tier quick 2>&1); code=$?
  if [ $code -eq 0 ] && ! echo "$out" | grep -q '^VIOLATION'; then echo "MUSTHOLD ok      $prop $patch $(echo "$out" | grep -c 'rename tolerance' | sed 's/^0$//; s/^[1-9].*/(rename tolerance used)/')"
  else echo "MUSTHOLD ALARM   $prop $patch (exit $code) :: $(echo "$out" | grep '^VIOLATION\|ENGINE' | sed 's/ replay=[^ ]*//' | head -3 | cut -c1-300 | tr '\n' ' ')"; fi
  rm -rf "$s"
}
export -f run_one
res=$(mktemp)
# every claimed property that has a unit in a package the patch touches is checked (not only the one the patch is filed under)
for f in selftest/harmless/${MH_DIRS:-*}/*.patch; do for p in $(python3 tools/props_for_patch.py $f); do if [ "$want" = "  " ] || echo "$want" | grep -q " $p "; then echo "$p /verif/$f"; fi; done; done | xargs -P "$J" -L 1 bash -c 'run_one "$0" "$1"' | tee "$res"
a=$(grep -c '^MUSTHOLD ALARM' "$res"); o=$(grep -c '^MUSTHOLD ok' "$res")
echo "MUSTHOLD summary: ok=$o alarms=$a"
rm -f "$res"
[ "$a" -eq 0 ] || exit 3

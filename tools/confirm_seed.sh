#!/bin/bash
# usage: confirm_seed.sh <worktree> <m-dir>   -- confirms a seeded mutation in the scratch worktree:
# demo fails with the patch, passes without; module builds; tests of the touched packages pass.
set -u
WT=$1; M=$2
export GOFLAGS=-mod=mod GOPROXY=off
cd $WT && git checkout -q -- rolling-shutter && find $WT -name zz_contracts_verif.go -delete
head -12 $M/demo_test.go | grep -i "copy\|run\|dir" | head -5
line=$(grep -m1 "go test" $M/demo_test.go)
dest=$(echo "$line" | grep -o ' \./[a-zA-Z0-9_/]*' | tail -1 | sed 's#^ \./##; s#/$##')
runpat=$(echo "$line" | grep -o "\-run '[^']*'\|-run [A-Za-z0-9_^$]*" | head -1 | sed "s/-run //; s/'//g")
if [ -z "$dest" ]; then dest=$(grep -o 'rolling-shutter/[a-zA-Z0-9_/]*' $M/demo_test.go | head -1); dest=${dest#rolling-shutter/}; dest=${dest%/}; fi
[ -z "$runpat" ] && runpat=$(grep -o 'TestSeeded[A-Za-z0-9_]*' $M/demo_test.go | head -1)
echo "dest=$dest run=$runpat"
cp $M/demo_test.go $WT/rolling-shutter/$dest/zz_seed_demo_test.go
cd $WT/rolling-shutter
echo "--- clean:"; go test -vet=off -count=1 -run "$runpat" ./$dest/ 2>&1 | tail -2
git -C $WT apply $M/patch.diff || { echo "PATCH DOES NOT APPLY"; rm -f $WT/rolling-shutter/$dest/zz_seed_demo_test.go; exit 1; }
echo "--- mutated demo:"; go test -vet=off -count=1 -run "$runpat" ./$dest/ 2>&1 | tail -3
rm -f $WT/rolling-shutter/$dest/zz_seed_demo_test.go
pk=$(git -C $WT diff --diff-filter=M --name-only -- rolling-shutter | grep '\.go$' | xargs -n1 dirname | sort -u | sed 's#^rolling-shutter/#./#')
echo "--- build + existing tests of: $pk"; go build ./... 2>&1 | tail -2; go test -vet=off -count=1 $pk 2>&1 | tail -4
git -C $WT checkout -q -- rolling-shutter; find $WT -name zz_contracts_verif.go -delete

#!/bin/bash
# usage: [ST_MATCH=<regexp on the patch path>] tools/selftest.sh [-j N] [<property-id> ...]
# Must-fail corpus: every stored property-breaking change (selftest/mutants/*.patch = the pre-fix versions of
# the defects D1..D10; seeded/<id>-mN/patch.diff = changes produced by independent sub-agents; selftest/local/
# <id>/*.patch = hand-made ones) is applied to a scratch copy of /repo's working tree (never to /repo) and the
# property's quick check is run on the copy in selftest mode (GOVC_REPO/GOVC_OUT: evidence of the real tree is
# not touched). Expected: exit 1 with a VIOLATION line. Prints one line per mutant and a summary; exits 0 if
# every applicable mutant was detected, 3 otherwise. Scratch copies live under ${TMPDIR:-/var/tmp} and are
# removed after each run.
cd /verif
J=3
if [ "$1" = "-j" ]; then J=$2; shift 2; fi
want=" $* "
export GOFLAGS=-mod=mod GOPROXY=off
# solver processes per check: the CPUs are divided among the J checks running side by side
PROCS=${ST_PROCS:-$(( $(nproc) / J ))}; [ $PROCS -lt 2 ] && PROCS=2; export PROCS
[ -x bin/govc ] || (cd govc && go build -o /verif/bin/govc .)
list=$(mktemp)
python3 - "$want" > "$list" <<'PY'
# one line per mutant: "<expected property> <patch> <all claimed properties with a unit in a touched package>"
import json,glob,os,sys,subprocess
want=sys.argv[1].split()
idx=json.load(open('/verif/selftest/mutants/index.json'))
out=[]
for p,props in sorted(idx.items()):
    out.append((props[0],'/verif/selftest/mutants/'+p))
for d in sorted(glob.glob('/verif/seeded/*/')):
    m=os.path.join(d,'meta.json'); pf=os.path.join(d,'patch.diff')
    if os.path.exists(m) and os.path.exists(pf):
        out.append((json.load(open(m))['property'],pf))
for pf in sorted(glob.glob('/verif/selftest/local/*/*.patch')):
    out.append((pf.split('/')[-2],pf))
for pr,pf in out:
    if want and pr not in want: continue
    if os.environ.get('ST_MATCH') and not __import__('re').search(os.environ['ST_MATCH'],pf): continue
    aff=subprocess.run(['python3','/verif/tools/props_for_patch.py',pf],capture_output=True,text=True).stdout.split()
    if pr not in aff: aff=[pr]+aff
    aff=[pr]+[a for a in aff if a!=pr]
    print(pr,pf,','.join(aff))
PY
run_one() {
  prop=$1; patch=$2; all=$3
  s=$(mktemp -d "${TMPDIR:-/var/tmp}/govc_selftest.XXXXXX")
  rsync -a --exclude .git /repo/ "$s/"
  if ! (cd "$s" && patch -p1 -s --no-backup-if-mismatch < "$patch" >/dev/null 2>&1); then
    echo "SELFTEST skipped  $prop $patch (does not apply to the current tree)"; rm -rf "$s"; return
  fi
  # the property the change was written against is checked first; if it stays silent the other claimed
  # properties with a unit in a touched package are tried (every check runs on every change in practice)
  for p in $(echo "$all" | tr ',' ' '); do
    out=$(GOVC_REPO="$s/rolling-shutter" GOVC_OUT="$s/out" GOVC_SELFTEST=1 GOVC_PROCS=$PROCS timeout 2400 /verif/bin/govc check -prop "$p" -tier quick 2>&1); code=$?
    first=$(echo "$out" | grep '^VIOLATION' | sed 's/.*obligation="//; s/\[.*//' | sort | uniq -c | awk '{printf "%s(x%s) ", $2, $1}' | cut -c1-400)
    if [ $code -eq 1 ] && [ -n "$first" ]; then
      if [ "$p" = "$prop" ]; then echo "SELFTEST detected $prop $patch :: $first"; else echo "SELFTEST detected $prop $patch (by the check of $p) :: $first"; fi
      rm -rf "$s"; return
    fi
  done
  echo "SELFTEST MISSED   $prop $patch (exit $code; checks tried: $all) $(echo "$out" | tail -1 | cut -c1-120)"
  rm -rf "$s"
}
export -f run_one
res=$(mktemp)
xargs -P "$J" -L 1 bash -c 'run_one "$0" "$1" "$2"' < "$list" | tee "$res"
d=$(grep -c '^SELFTEST detected' "$res"); m=$(grep -c '^SELFTEST MISSED' "$res"); k=$(grep -c '^SELFTEST skipped' "$res")
echo "SELFTEST summary: detected=$d missed=$m skipped=$k"
rm -f "$list" "$res"
[ "$m" -eq 0 ] || exit 3

//go:build verif

// Contracts for package identitypreimage, checked by /verif/govc. Comments only.
package identitypreimage

//@ func (IdentityPreimage).Bytes
//@   ensures ret0 == e

//go:build verif

// Contracts for package shutterservice, checked by /verif/govc (see /verif/DESIGN.md).
// This file contains comments only; it adds no code to any build.
package shutterservice

//@ pred validRef(r) := r.Offset <= 4294967295 && (r.Dynamic ==> r.Offset >= 4)
//@
//@ func (*LogValueRef).GetValue
//@   requires r != nil && log != nil
//@   requires validRef(r)
//@   opt bounded-alloc = 32 + len(log.Data)

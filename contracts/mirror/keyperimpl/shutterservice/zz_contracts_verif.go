//go:build verif

// Contracts for package shutterservice, checked by /verif/govc (see /verif/DESIGN.md).
// This file contains comments only; it adds no code to any build.
package shutterservice

// ---- C17: event trigger definitions -------------------------------------------------------------
//
//@ const MaxUint32 = 4294967295
//@ pred nInt(op) := ite(op <= 4, 1, 0)
//@ pred nByte(op) := ite(op == 5, 1, 0)
//@ pred validRef(r) := r.Offset <= MaxUint32 && (r.Dynamic ==> r.Offset >= 4)
//@ pred validArgs(p) := forall i :: 0 <= i && i < len(p.IntArgs) ==> (p.IntArgs[i] != nil && bigval(p.IntArgs[i]) >= 0)
//@ pred validPred(p) := p.Op <= 5 && len(p.IntArgs) == nInt(p.Op) && len(p.ByteArgs) == nByte(p.Op) && validArgs(p)
//@ pred topicEq(lp) := lp.LogValueRef.Offset < 4 && lp.ValuePredicate.Op == 5
//@ pred validLP(lp) := validRef(lp.LogValueRef) && validPred(lp.ValuePredicate) && (topicEq(lp) ==> len(lp.ValuePredicate.ByteArgs[0]) == 32)
//@
//@ func (Op).Validate
//@   ensures ret0 == nil <==> op <= 5
//@ func (Op).NumIntArgs
//@   ensures ret0 == nInt(op)
//@ func (Op).NumByteArgs
//@   ensures ret0 == nByte(op)
//@
//@ func (*LogValueRef).Validate
//@   requires r != nil
//@   ensures ret0 == nil <==> validRef(r)
//@ func (*LogValueRef).IsTopic
//@   requires r != nil
//@   ensures ret0 <==> r.Offset < 4
//@
//@ func (*ValuePredicate).validateArgNums
//@   requires p != nil
//@   ensures ret0 == nil <==> (len(p.IntArgs) == nInt(p.Op) && len(p.ByteArgs) == nByte(p.Op))
//@ func (*ValuePredicate).validateArgValues
//@   requires p != nil
//@   ensures ret0 == nil <==> validArgs(p)
//@   invariant forall j :: 0 <= j && j <= rangeindex ==> (p.IntArgs[j] != nil && bigval(p.IntArgs[j]) >= 0)
//@ func (*ValuePredicate).Validate
//@   requires p != nil
//@   ensures ret0 == nil <==> validPred(p)
//@ func (*LogPredicate).Validate
//@   requires p != nil
//@   ensures ret0 == nil <==> validLP(p)
//@
//@ func (*LogValueRef).GetValue
//@   requires r != nil && log != nil
//@   requires validRef(r)
//@   opt bounded-alloc = 32 + len(log.Data)
//@
//@ func (*ValuePredicate).Match
//@   requires p != nil && validPred(p)
//@   ensures ret1 == nil
//@   ensures p.Op == 0 ==> (ret0 <==> be_int(content(value)) <  bigval(p.IntArgs[0]))
//@   ensures p.Op == 1 ==> (ret0 <==> be_int(content(value)) <= bigval(p.IntArgs[0]))
//@   ensures p.Op == 2 ==> (ret0 <==> be_int(content(value)) == bigval(p.IntArgs[0]))
//@   ensures p.Op == 3 ==> (ret0 <==> be_int(content(value)) >  bigval(p.IntArgs[0]))
//@   ensures p.Op == 4 ==> (ret0 <==> be_int(content(value)) >= bigval(p.IntArgs[0]))
//@   ensures p.Op == 5 ==> (ret0 <==> content(value) == content(p.ByteArgs[0]))
//@
//@ func (*LogPredicate).Match
//@   requires p != nil && log != nil && validLP(p)
//@   ensures ret1 == nil
//@
//@ pred noDupTopics(d) := forall a, b :: 0 <= a && a < b && b < len(d.LogPredicates) && topicEq(d.LogPredicates[a]) && topicEq(d.LogPredicates[b]) ==> d.LogPredicates[a].LogValueRef.Offset != d.LogPredicates[b].LogValueRef.Offset
//@ pred validDef(d) := (forall i :: 0 <= i && i < len(d.LogPredicates) ==> validLP(d.LogPredicates[i])) && noDupTopics(d)
//@
//@ func (*EventTriggerDefinition).Validate
//@   requires d != nil
//@   ensures ret0 == nil ==> validDef(d)
//@   invariant@1 forall j :: 0 <= j && j <= rangeindex ==> validLP(d.LogPredicates[j])
//@   invariant@2 forall j :: 0 <= j && j <= rangeindex && topicEq(d.LogPredicates[j]) ==> has(topicMap, d.LogPredicates[j].LogValueRef.Offset)
//@   invariant@2 forall k :: has(topicMap, k) ==> exists j :: 0 <= j && j <= rangeindex && topicEq(d.LogPredicates[j]) && d.LogPredicates[j].LogValueRef.Offset == k
//@   invariant@2 forall a, b :: 0 <= a && a < b && b <= rangeindex && topicEq(d.LogPredicates[a]) && topicEq(d.LogPredicates[b]) ==> d.LogPredicates[a].LogValueRef.Offset != d.LogPredicates[b].LogValueRef.Offset
//@
//@ func (*EventTriggerDefinition).Match
//@   requires d != nil && log != nil && validDef(d)
//@   ensures ret1 == nil
//@
//@ pred topicsFromPreds(d, topics, upto) := forall k :: 0 <= k && k < len(topics) && len(topics[k]) != 0 ==> (exists j :: 0 <= j && j <= upto && topicEq(d.LogPredicates[j]) && d.LogPredicates[j].LogValueRef.Offset == k)
//@ func (*EventTriggerDefinition).ToFilterQuery
//@   requires d != nil && validDef(d)
//@   ensures ret1 == nil
//@   invariant fresh(topics)
//@   invariant len(topics) <= 4
//@   invariant topicsFromPreds(d, topics, rangeindex)
//@   invariant@2 topicIndex < 4 && topicIndex == d.LogPredicates[rangeindex + 1].LogValueRef.Offset

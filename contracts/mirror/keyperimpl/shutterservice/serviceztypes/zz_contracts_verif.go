//go:build verif

// Contracts for the Shutter-service signed-tuple type, checked by /verif/govc. Comments only.
package serviceztypes

//@ ufn sszRootS(Int) Arr
//@ func (*DecryptionSignatureData).HashTreeRoot
//@   trusted
//@   requires d != nil
//@   ensures ret1 == nil ==> ret0 == sszRootS(d)
//@
//@ pred sigOKS(d, sig, addr) := recoverOK(bytes_content(sszRootS(d), 0, 32), sig) && recoverAddr(bytes_content(sszRootS(d), 0, 32), sig) == addr
//@
//@ func (*DecryptionSignatureData).CheckSignature
//@   requires d != nil
//@   ensures ret1 == nil ==> (ret0 <==> sigOKS(d, content(signature), address))
//@   ensures ret1 != nil ==> !ret0
//@
//@ func NewDecryptionSignatureData
//@   ensures (ret1 == nil) <==> len(identityPreimages) <= 1024
//@   ensures ret1 == nil ==> ret0 != nil && fresh(ret0)
//@   ensures ret1 == nil ==> ret0.InstanceID == instanceID && ret0.Eon == eon
//@   ensures ret1 == nil ==> len(ret0.IdentityPreimages) == len(identityPreimages)
//@   ensures ret1 == nil ==> (forall i :: 0 <= i && i < len(identityPreimages) ==> ret0.IdentityPreimages[i].Bytes == identityPreimages[i])
//@   invariant fresh(wrappedPreimages) || len(wrappedPreimages) == 0
//@   invariant len(wrappedPreimages) == rangeindex + 1
//@   invariant forall j :: 0 <= j && j <= rangeindex ==> wrappedPreimages[j].Bytes == identityPreimages[j]

//go:build verif

// Contracts for the Gnosis signed-tuple type, checked by /verif/govc. Comments only.
package gnosisssztypes

// The SSZ hash tree root is generated code (fastssz); it is assumed to be a function of the object
// (A-crypto-2: injective on the signed tuples). sszRootG(d) names the root of the tuple stored in d.
//@ ufn sszRootG(Int) Arr
//@ func (*SlotDecryptionSignatureData).HashTreeRoot
//@   trusted
//@   requires s != nil
//@   ensures ret1 == nil ==> ret0 == sszRootG(s)
//@
//@ pred sigOKG(d, sig, addr) := recoverOK(bytes_content(sszRootG(d), 0, 32), sig) && recoverAddr(bytes_content(sszRootG(d), 0, 32), sig) == addr
//@
//@ func (*SlotDecryptionSignatureData).CheckSignature
//@   requires d != nil
//@   ensures ret1 == nil ==> (ret0 <==> sigOKG(d, content(signature), address))
//@   ensures ret1 != nil ==> !ret0
//@
//@ func NewSlotDecryptionSignatureData
//@   ensures (ret1 == nil) <==> len(identityPreimages) <= 1024
//@   ensures ret1 == nil ==> ret0 != nil && fresh(ret0)
//@   ensures ret1 == nil ==> ret0.InstanceID == instanceID && ret0.Eon == eon && ret0.Slot == slot && ret0.TxPointer == txPointer
//@   ensures ret1 == nil ==> len(ret0.IdentityPreimages) == len(identityPreimages)
//@   ensures ret1 == nil ==> (forall i :: 0 <= i && i < len(identityPreimages) ==> ret0.IdentityPreimages[i].Bytes == identityPreimages[i])
//@   invariant fresh(wrappedPreimages) || len(wrappedPreimages) == 0
//@   invariant len(wrappedPreimages) == rangeindex + 1
//@   invariant forall j :: 0 <= j && j <= rangeindex ==> wrappedPreimages[j].Bytes == identityPreimages[j]

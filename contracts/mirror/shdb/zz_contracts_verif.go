//go:build verif

// Contracts for package shdb, checked by /verif/govc (see /verif/DESIGN.md). Comments only.
package shdb

//@ func DecodeAddress
//@   ensures (ret1 == nil) <==> isHexAddr(data)
//@   ensures ret1 == nil ==> ret0 == hexToAddr(data)

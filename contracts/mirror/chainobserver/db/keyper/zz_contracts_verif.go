//go:build verif

// Contracts for the chain observer's keyper-set type, checked by /verif/govc. Comments only.
package database

// GetSubset: exactly the addresses at the given indices, in order; error iff an index is out of
// range or a stored address does not decode.
//@ func (*KeyperSet).GetSubset
//@   requires s != nil
//@   ensures ret1 == nil <==> (forall i :: 0 <= i && i < len(indices) ==> (indices[i] < len(s.Keypers) && isHexAddr(s.Keypers[indices[i]])))
//@   ensures ret1 == nil ==> len(ret0) == len(indices)
//@   ensures ret1 == nil ==> (forall i :: 0 <= i && i < len(indices) ==> ret0[i] == hexToAddr(s.Keypers[indices[i]]))
//@   invariant fresh(subset) || len(subset) == 0
//@   invariant len(subset) == rangeindex + 1
//@   invariant forall j :: 0 <= j && j <= rangeindex ==> (indices[j] < len(s.Keypers) && isHexAddr(s.Keypers[indices[j]]) && subset[j] == hexToAddr(s.Keypers[indices[j]]))

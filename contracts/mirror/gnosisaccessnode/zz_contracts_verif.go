//go:build verif

// Contracts for the Gnosis access node, checked by /verif/govc (see /verif/DESIGN.md). Comments only.
package gnosisaccessnode

// Representation invariant of Storage: stored keyper sets and eon keys are non-nil. It is required by
// the getters; AddKeyperSet/AddEonKey callers are outside the functions under contract (A-storage).
//@ pred storageInv(s) := s != nil && (forall k :: has(s.keyperSets, k) ==> s.keyperSets[k] != nil) && (forall k :: has(s.eonKeys, k) ==> s.eonKeys[k] != nil)
//@
//@ func (*Storage).GetKeyperSet
//@   requires storageInv(s)
//@   ensures ret1 <==> has(s.keyperSets, keyperConfigIndex)
//@   ensures ret1 ==> ret0 != nil && ret0 == s.keyperSets[keyperConfigIndex]
//@ func (*Storage).GetEonKey
//@   requires storageInv(s)
//@   ensures ret1 <==> has(s.eonKeys, keyperConfigIndex)
//@   ensures ret1 ==> ret0 != nil && ret0 == s.eonKeys[keyperConfigIndex]
//@
//@ pred isKeysForAccessNode(keys) := wfKeys(keys) && wfExtraKeys(keys) && ((typeis(keys.Extra, "*p2pmsg.DecryptionKeys_Gnosis") && gnosisOf(keys) != nil) ==> wfExtraG(gnosisOf(keys)))
//@
//@ // The access node accepts a Gnosis keys message only under the same signature rule as the keypers (C06).
//@ func (*DecryptionKeysHandler).validateGnosisFields
//@   requires handler != nil && storageInv(handler.storage) && isKeysForAccessNode(keys)
//@   ensures ret0 == 0 ==> acceptedKeysG(keys)
//@   ensures ret0 == 0 ==> has(handler.storage.keyperSets, keys.Eon) && len(gnosisOf(keys).SignerIndices) == handler.storage.keyperSets[keys.Eon].Threshold && signersOK(gnosisOf(keys), len(handler.storage.keyperSets[keys.Eon].Keypers))
//@
//@ func (*DecryptionKeysHandler).ValidateMessage
//@   requires handler != nil && handler.config != nil && storageInv(handler.storage) && typeis(msg, "*p2pmsg.DecryptionKeys") && keysOf(msg) != nil && isKeysForAccessNode(keysOf(msg))
//@   ensures ret0 == 0 ==> acceptedKeysG(keysOf(msg))

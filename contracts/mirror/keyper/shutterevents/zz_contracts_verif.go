//go:build verif

// Contracts for package shutterevents, checked by /verif/govc (see /verif/DESIGN.md). Comments only.
package shutterevents

// ---- BatchConfig helpers (C10, C11) -------------------------------------------------------------------------
//@ pred isMember(bc, a) := exists i :: 0 <= i && i < len(bc.Keypers) && bc.Keypers[i] == a
//@ func (*BatchConfig).KeyperIndex
//@   requires bc != nil
//@   ensures ret1 <==> isMember(bc, address)
//@   ensures ret1 ==> (ret0 < len(bc.Keypers) && bc.Keypers[ret0] == address)
//@   invariant forall j :: 0 <= j && j <= rangeindex ==> bc.Keypers[j] != address
//@ func (*BatchConfig).IsKeyper
//@   requires bc != nil
//@   ensures ret0 <==> isMember(bc, candidate)
//@ pred cfgValid(bc) := len(bc.Keypers) >= 1 && bc.Threshold >= 1 && bc.Threshold <= len(bc.Keypers)
//@ func (*BatchConfig).EnsureValid
//@   requires bc != nil && len(bc.Keypers) <= 1048576
//@   ensures ret0 == nil <==> cfgValid(bc)
//@
//@ // ---- C14: events as shuttermint wrote them ---------------------------------------------------------------
//@ // positional attribute-name check: what makes every ev.Attributes[k] below an in-bounds index
//@ func expectAttributes
//@   ensures ret0 == nil ==> (len(ev.Attributes) >= len(names) && (forall i :: 0 <= i && i < len(names) ==> ev.Attributes[i].Key == names[i]))
//@   invariant forall j :: 0 <= j && j <= rangeindex ==> ev.Attributes[j].Key == names[j]

package main

// Symbolic values and the memory model.
//
// Memory: Burstall-style components. An object is an Int id handed out by a bump allocator
// (state.alloc); nil is 0. For an object of struct type T the scalar leaf at field path p lives in
// component "H|T|p" : Array Int leaf. Array objects (slice backing stores, [N]T allocations) keep
// element leaves in "E|elem|p" : Array Int (Array Int leaf). Interior pointers (&x.f, &s[i]) are
// tracked at engine level as (object, element index, field path) and never become SMT values.

import (
	"fmt"
	"regexp"
	"go/types"
	"math/big"
	"sort"
	"strings"
)

type Value interface{}

type Scalar struct{ T Term }

type SliceV struct{ Arr, Off, Len, Cap Term }

type StructV struct{ F []Value }

type IfaceV struct{ Tag, Pay Term }

type TupleV struct{ V []Value }

// FuncV is a statically known function value (function reference or closure).
type FuncV struct {
	Fn       interface{} // *ssa.Function
	Bindings []Value
	Opaque   Term // when not statically known
}

type PtrV struct {
	Base Term
	Obj  types.Type // struct/scalar type of the object, or element type when Arr
	Arr  bool
	Idx  *Term // element index when Arr (nil: pointer to the whole array object)
	Path []int // struct field indexes below Obj
	Sub  *Term // index inside a leaf fixed-size array
}

func (p PtrV) isRoot() bool { return !p.Arr && len(p.Path) == 0 && p.Sub == nil }

// pointee returns the Go type the pointer designates.
func (p PtrV) pointee() types.Type {
	t := p.Obj
	for _, f := range p.Path {
		st := t.Underlying().(*types.Struct)
		t = st.Field(f).Type()
	}
	if p.Sub != nil {
		t = t.Underlying().(*types.Array).Elem()
	}
	return t
}

type Leaf struct {
	Path string
	Sort Sort
	T    types.Type
	Kind string // int bool str ptr arr off len cap tag pay ref fixarr float opaque
}

var floatSortDeclared = "Float"

func isScalarLeaf(t types.Type) (Sort, string, bool) {
	switch u := t.Underlying().(type) {
	case *types.Basic:
		switch {
		case u.Info()&types.IsBoolean != 0:
			return SBool, "bool", true
		case u.Info()&types.IsInteger != 0:
			return SInt, "int", true
		case u.Info()&types.IsString != 0:
			return SStr, "str", true
		case u.Info()&types.IsFloat != 0, u.Info()&types.IsComplex != 0:
			return Sort("Float"), "float", true
		case u.Kind() == types.UnsafePointer:
			return SInt, "ref", true
		case u.Kind() == types.UntypedNil:
			return SInt, "ref", true
		}
	case *types.Pointer:
		return SInt, "ptr", true
	case *types.Map, *types.Chan, *types.Signature:
		return SInt, "ref", true
	case *types.Array:
		if s, _, ok := isScalarLeaf(u.Elem()); ok {
			return ArrSort(SInt, s), "fixarr", true
		}
	}
	return "", "", false
}

// leaves flattens a type into its scalar leaves.
func leaves(t types.Type) []Leaf {
	var out []Leaf
	var walk func(t types.Type, path string)
	walk = func(t types.Type, path string) {
		if s, k, ok := isScalarLeaf(t); ok {
			out = append(out, Leaf{path, s, t, k})
			return
		}
		switch u := t.Underlying().(type) {
		case *types.Slice:
			out = append(out, Leaf{path + "#arr", SInt, t, "arr"}, Leaf{path + "#off", SInt, t, "off"},
				Leaf{path + "#len", SInt, t, "len"}, Leaf{path + "#cap", SInt, t, "cap"})
		case *types.Interface:
			out = append(out, Leaf{path + "#tag", SInt, t, "tag"}, Leaf{path + "#pay", SInt, t, "pay"})
		case *types.Struct:
			for i := 0; i < u.NumFields(); i++ {
				walk(u.Field(i).Type(), path+"."+u.Field(i).Name())
			}
		case *types.Tuple:
			for i := 0; i < u.Len(); i++ {
				walk(u.At(i).Type(), fmt.Sprintf("%s.%d", path, i))
			}
		case *types.Array:
			// array of non-scalars: opaque
			out = append(out, Leaf{path, Sort("Opaque"), t, "opaque"})
		case *types.TypeParam:
			out = append(out, Leaf{path, Sort("Opaque"), t, "opaque"})
		default:
			out = append(out, Leaf{path, Sort("Opaque"), t, "opaque"})
		}
	}
	walk(t, "")
	return out
}

var byteRe = regexp.MustCompile(`\bbyte\b`)
var runeRe = regexp.MustCompile(`\brune\b`)

// typeName is the canonical name of a type in component names: aliases are resolved at every level
// (type BatchConfig = shutterevents.BatchConfig; byte/rune), so that the same memory is always addressed
// through the same component.
func typeName(t types.Type) string {
	var b strings.Builder
	writeCanonType(&b, t, 0)
	return b.String()
}

func writeCanonType(b *strings.Builder, t types.Type, depth int) {
	writeCanonTypeQ(b, t, depth, false)
}

// writeCanonTypeQ: full = package paths instead of package names (type tags)
func writeCanonTypeQ(b *strings.Builder, t types.Type, depth int, canonFullPaths bool) {
	if depth > 8 {
		b.WriteString("...")
		return
	}
	t = types.Unalias(t)
	switch x := t.(type) {
	case *types.Basic:
		switch x.Kind() {
		case types.Uint8:
			b.WriteString("uint8")
		case types.Int32:
			b.WriteString("int32")
		default:
			b.WriteString(x.Name())
		}
	case *types.Named:
		if x.Obj().Pkg() != nil {
			if canonFullPaths {
				b.WriteString(x.Obj().Pkg().Path())
			} else {
				b.WriteString(x.Obj().Pkg().Name())
			}
			b.WriteByte('.')
		}
		b.WriteString(x.Obj().Name())
		if ta := x.TypeArgs(); ta != nil && ta.Len() > 0 {
			b.WriteByte('[')
			for i := 0; i < ta.Len(); i++ {
				if i > 0 {
					b.WriteByte(',')
				}
				writeCanonTypeQ(b, ta.At(i), depth+1, canonFullPaths)
			}
			b.WriteByte(']')
		}
	case *types.Pointer:
		b.WriteByte('*')
		writeCanonTypeQ(b, x.Elem(), depth+1, canonFullPaths)
	case *types.Slice:
		b.WriteString("[]")
		writeCanonTypeQ(b, x.Elem(), depth+1, canonFullPaths)
	case *types.Array:
		fmt.Fprintf(b, "[%d]", x.Len())
		writeCanonTypeQ(b, x.Elem(), depth+1, canonFullPaths)
	case *types.Map:
		b.WriteString("map[")
		writeCanonTypeQ(b, x.Key(), depth+1, canonFullPaths)
		b.WriteByte(']')
		writeCanonTypeQ(b, x.Elem(), depth+1, canonFullPaths)
	case *types.Chan:
		b.WriteString("chan ")
		writeCanonTypeQ(b, x.Elem(), depth+1, canonFullPaths)
	case *types.Struct:
		b.WriteString("struct{")
		for i := 0; i < x.NumFields(); i++ {
			if i > 0 {
				b.WriteString("; ")
			}
			b.WriteString(x.Field(i).Name())
			b.WriteByte(' ')
			writeCanonTypeQ(b, x.Field(i).Type(), depth+1, canonFullPaths)
		}
		b.WriteByte('}')
	default:
		s := types.TypeString(t, func(p *types.Package) string { return p.Name() })
		if strings.Contains(s, "byte") {
			s = byteRe.ReplaceAllString(s, "uint8")
		}
		if strings.Contains(s, "rune") {
			s = runeRe.ReplaceAllString(s, "int32")
		}
		b.WriteString(s)
	}
}

// ---------------------------------------------------------------------------------------------

type State struct {
	heap  map[string]Term
	alloc Term
	ghost map[string]Term // ghost traces/counters (Int or arrays)
}

func (s *State) clone() *State {
	n := &State{heap: make(map[string]Term, len(s.heap)), alloc: s.alloc, ghost: make(map[string]Term, len(s.ghost))}
	for k, v := range s.heap {
		n.heap[k] = v
	}
	for k, v := range s.ghost {
		n.ghost[k] = v
	}
	return n
}

// Engine-wide (per verification unit) context on top of Ctx.
type Mem struct {
	c      *Ctx
	heap0  map[string]Term // initial component constants
	tids   map[string]int64
	tidTyp map[int64]types.Type
	nonNil map[string]bool // terms known to be fresh object ids
	sliceHook func(SliceV)
	refKind map[string]bool
	alloc0  Term
	writes  []writeRec // log of writes to pre-existing objects (for loop frames)
}

type writeRec struct {
	comp string
	base string // "" = whole component havoced
}

func (m *Mem) noteWrite(comp string, base Term) {
	m.writes = append(m.writes, writeRec{comp, base.S})
}

func NewMem(c *Ctx) *Mem {
	c.DeclSort("Float")
	c.DeclSort("Opaque")
	return &Mem{c: c, heap0: map[string]Term{}, tids: map[string]int64{}, tidTyp: map[int64]types.Type{}, nonNil: map[string]bool{}, refKind: map[string]bool{}}
}

// typeID: dynamic type tags. Identical Go types must get identical tags, so aliases are resolved at every level
// (app.BatchConfig = shutterevents.BatchConfig) and byte/uint8, rune/int32 are unified; package paths are kept
// in full so that equally named types of different packages stay distinct.
func (m *Mem) typeID(t types.Type) int64 {
	var kb strings.Builder
	writeCanonTypeQ(&kb, t, 0, true)
	k := kb.String()
	if id, ok := m.tids[k]; ok {
		return id
	}
	id := int64(len(m.tids) + 1)
	m.tids[k] = id
	m.tidTyp[id] = t
	return id
}

func (m *Mem) comp(st *State, name string, sort Sort) Term {
	if t, ok := st.heap[name]; ok {
		return t
	}
	if t, ok := m.heap0[name]; ok {
		return t
	}
	t := m.c.Fresh(name, sort)
	m.heap0[name] = t
	if m.refKind[name] && m.alloc0.S != "" {
		m.refAxiom(t, m.alloc0)
	}
	return t
}

// refAxiom states that every reference stored in component t designates an object allocated so far
// (type safety of the heap; needed inside quantified contracts, where per-load typing facts are absent).
// Only allocated objects (r < alloc) are constrained: beyond the allocation counter the arrays are free,
// which is where objects allocated by contracted callees appear in the caller's view.
func (m *Mem) refAxiom(t Term, alloc Term) {
	vs := arrValSort(t.Sort)
	if vs == SInt {
		m.c.Raw(fmt.Sprintf("(assert (forall ((r Int)) (! (=> (< r %s) (and (<= 0 (select %s r)) (< (select %s r) %s))) :pattern ((select %s r)))))", alloc.S, t.S, t.S, alloc.S, t.S))
		return
	}
	if strings.HasPrefix(string(vs), "(Array ") && arrValSort(vs) == SInt {
		ks := arrIdxSort(vs)
		m.c.Raw(fmt.Sprintf("(assert (forall ((r Int) (k %s)) (! (=> (< r %s) (and (<= 0 (select (select %s r) k)) (< (select (select %s r) k) %s))) :pattern ((select (select %s r) k)))))", ks, alloc.S, t.S, t.S, alloc.S, t.S))
	}
}

func (m *Mem) markRef(name string, kind string) {
	if kind == "ptr" || kind == "arr" || kind == "ref" {
		m.refKind[name] = true
	}
}

func compName(p PtrV, leafPath string) (string, bool) {
	var b strings.Builder
	if p.Arr {
		b.WriteString("E|")
	} else {
		b.WriteString("H|")
	}
	b.WriteString(typeName(p.Obj))
	b.WriteString("|")
	t := p.Obj
	for _, f := range p.Path {
		st := t.Underlying().(*types.Struct)
		b.WriteString("." + st.Field(f).Name())
		t = st.Field(f).Type()
	}
	b.WriteString(leafPath)
	return b.String(), p.Arr
}

func (m *Mem) compSort(isArr bool, leaf Sort) Sort {
	if isArr {
		return ArrSort(SInt, ArrSort(SInt, leaf))
	}
	return ArrSort(SInt, leaf)
}

// loadLeaf reads one scalar leaf at pointer p (+leaf path).
func (m *Mem) loadLeaf(st *State, p PtrV, lf Leaf) Term {
	name, isArr := compName(p, lf.Path)
	m.markRef(name, lf.Kind)
	comp := m.comp(st, name, m.compSort(isArr, lf.Sort))
	var cell Term
	if isArr {
		inner := Select(comp, p.Base)
		if p.Idx == nil {
			// whole array object read as a fixed array value is handled by caller
			return inner
		}
		cell = Select(inner, *p.Idx)
	} else {
		cell = Select(comp, p.Base)
	}
	return cell
}

func (m *Mem) storeLeaf(st *State, p PtrV, lf Leaf, v Term) {
	name, isArr := compName(p, lf.Path)
	m.markRef(name, lf.Kind)
	m.noteWrite(name, p.Base)
	comp := m.comp(st, name, m.compSort(isArr, lf.Sort))
	var n Term
	if isArr {
		if p.Idx == nil {
			n = Store(comp, p.Base, v)
		} else {
			n = Store(comp, p.Base, Store(Select(comp, p.Base), *p.Idx, v))
		}
	} else {
		n = Store(comp, p.Base, v)
	}
	st.heap[name] = m.c.Def(name, n)
}

// Load reads the value of type p.pointee() at p.
func (m *Mem) Load(st *State, p PtrV) Value {
	if p.Sub != nil {
		q := p
		q.Sub = nil
		arrT := q.pointee()
		lf := leaves(arrT)[0]
		a := m.loadLeaf(st, q, lf)
		v := m.c.Def("ld", Select(a, *p.Sub))
		m.assumeLeafType(st, v, arrT.Underlying().(*types.Array).Elem(), "int")
		return Scalar{v}
	}
	t := p.pointee()
	if p.Arr && p.Idx == nil {
		// pointer to whole array object [N]T with scalar T: value is the inner array
		if s, _, ok := isScalarLeaf(p.Obj); ok {
			name, _ := compName(p, "")
			comp := m.comp(st, name, m.compSort(true, s))
			return Scalar{m.c.Def("ld", Select(comp, p.Base))}
		}
		m.c.Note("unsupported: load of whole array of non-scalars " + typeName(p.Obj))
		return m.FreshValue(st, "opaque", types.NewArray(p.Obj, 0))
	}
	lfs := leaves(t)
	terms := make([]Term, len(lfs))
	for i, lf := range lfs {
		terms[i] = m.c.Def("ld", m.loadLeaf(st, p, lf))
		m.assumeLeafType(st, terms[i], lf.T, lf.Kind)
	}
	v, _ := m.unflatten(t, terms)
	m.assumeValueShape(st, v, t)
	return v
}

func (m *Mem) StoreVal(st *State, p PtrV, v Value) {
	if p.Sub != nil {
		q := p
		q.Sub = nil
		arrT := q.pointee()
		lf := leaves(arrT)[0]
		a := m.loadLeaf(st, q, lf)
		m.storeLeaf(st, q, lf, Store(a, *p.Sub, v.(Scalar).T))
		return
	}
	t := p.pointee()
	if p.Arr && p.Idx == nil {
		if s, _, ok := isScalarLeaf(p.Obj); ok {
			name, _ := compName(p, "")
			comp := m.comp(st, name, m.compSort(true, s))
			m.noteWrite(name, p.Base)
			st.heap[name] = m.c.Def(name, Store(comp, p.Base, v.(Scalar).T))
			return
		}
		m.c.Note("unsupported: store of whole array of non-scalars " + typeName(p.Obj))
		return
	}
	lfs := leaves(t)
	terms := m.flatten(t, v)
	for i, lf := range lfs {
		m.storeLeaf(st, p, lf, terms[i])
	}
}

// flatten turns a value of type t into its leaf terms (same order as leaves(t)).
func (m *Mem) flatten(t types.Type, v Value) []Term {
	var out []Term
	var walk func(t types.Type, v Value)
	walk = func(t types.Type, v Value) {
		if _, _, ok := isScalarLeaf(t); ok {
			switch x := v.(type) {
			case Scalar:
				out = append(out, x.T)
			case PtrV:
				if !x.isRoot() {
					if x.Arr && x.Idx == nil && len(x.Path) == 0 && x.Sub == nil {
						out = append(out, x.Base) // pointer to array object
						return
					}
					m.c.Note("unsupported: interior pointer stored as a value")
					out = append(out, m.c.Fresh("interiorptr", SInt))
					return
				}
				out = append(out, x.Base)
			case FuncV:
				if x.Opaque.S != "" {
					out = append(out, x.Opaque)
				} else {
					out = append(out, m.c.Fresh("funcval", SInt))
				}
			default:
				panic(fmt.Sprintf("flatten: scalar leaf %s got %T", typeName(t), v))
			}
			return
		}
		switch u := t.Underlying().(type) {
		case *types.Slice:
			s := v.(SliceV)
			out = append(out, s.Arr, s.Off, s.Len, s.Cap)
		case *types.Interface:
			i := v.(IfaceV)
			out = append(out, i.Tag, i.Pay)
		case *types.Struct:
			sv := v.(StructV)
			for i := 0; i < u.NumFields(); i++ {
				walk(u.Field(i).Type(), sv.F[i])
			}
		case *types.Tuple:
			tv := v.(TupleV)
			for i := 0; i < u.Len(); i++ {
				walk(u.At(i).Type(), tv.V[i])
			}
		default:
			if s, ok := v.(Scalar); ok {
				out = append(out, s.T)
			} else {
				out = append(out, m.c.Fresh("opaque", Sort("Opaque")))
			}
		}
	}
	walk(t, v)
	return out
}

func (m *Mem) unflatten(t types.Type, terms []Term) (Value, []Term) {
	if _, k, ok := isScalarLeaf(t); ok {
		x := terms[0]
		if k == "ptr" {
			return m.ptrFromTerm(x, t.Underlying().(*types.Pointer).Elem()), terms[1:]
		}
		return Scalar{x}, terms[1:]
	}
	switch u := t.Underlying().(type) {
	case *types.Slice:
		return SliceV{terms[0], terms[1], terms[2], terms[3]}, terms[4:]
	case *types.Interface:
		return IfaceV{terms[0], terms[1]}, terms[2:]
	case *types.Struct:
		sv := StructV{}
		rest := terms
		for i := 0; i < u.NumFields(); i++ {
			var f Value
			f, rest = m.unflatten(u.Field(i).Type(), rest)
			sv.F = append(sv.F, f)
		}
		return sv, rest
	case *types.Tuple:
		tv := TupleV{}
		rest := terms
		for i := 0; i < u.Len(); i++ {
			var f Value
			f, rest = m.unflatten(u.At(i).Type(), rest)
			tv.V = append(tv.V, f)
		}
		return tv, rest
	}
	return Scalar{terms[0]}, terms[1:]
}

// ptrFromTerm makes a root pointer value for pointee type elem.
func (m *Mem) ptrFromTerm(x Term, elem types.Type) PtrV {
	if a, ok := elem.Underlying().(*types.Array); ok {
		return PtrV{Base: x, Obj: a.Elem(), Arr: true}
	}
	return PtrV{Base: x, Obj: elem}
}

func intRange(t types.Type) (lo, hi Term, ok bool) {
	b, isB := t.Underlying().(*types.Basic)
	if !isB || b.Info()&types.IsInteger == 0 {
		return
	}
	var bits uint
	signed := b.Info()&types.IsUnsigned == 0
	switch b.Kind() {
	case types.Int8, types.Uint8:
		bits = 8
	case types.Int16, types.Uint16:
		bits = 16
	case types.Int32, types.Uint32:
		bits = 32
	case types.UntypedInt, types.UntypedRune:
		return
	default:
		bits = 64
	}
	if signed {
		lo = BigLit(new(big.Int).Neg(pow2(bits - 1)))
		hi = BigLit(new(big.Int).Sub(pow2(bits-1), big.NewInt(1)))
	} else {
		lo = IntLit(0)
		hi = BigLit(new(big.Int).Sub(pow2(bits), big.NewInt(1)))
	}
	return lo, hi, true
}

func intBits(t types.Type) (bits uint, signed bool, ok bool) {
	b, isB := t.Underlying().(*types.Basic)
	if !isB || b.Info()&types.IsInteger == 0 {
		return
	}
	signed = b.Info()&types.IsUnsigned == 0
	switch b.Kind() {
	case types.Int8, types.Uint8:
		bits = 8
	case types.Int16, types.Uint16:
		bits = 16
	case types.Int32, types.Uint32:
		bits = 32
	case types.UntypedInt, types.UntypedRune:
		return 0, true, false
	default:
		bits = 64
	}
	return bits, signed, true
}

func wrapTo(t Term, typ types.Type) Term {
	bits, signed, ok := intBits(typ)
	if !ok {
		return t
	}
	if signed {
		return WrapS(t, bits)
	}
	return WrapU(t, bits)
}

func (m *Mem) assumeLeafType(st *State, x Term, t types.Type, kind string) {
	switch kind {
	case "int":
		if lo, hi, ok := intRange(t); ok {
			m.c.Assume(And(Le(lo, x), Le(x, hi)))
		}
	case "ptr", "ref", "arr":
		m.c.Assume(And(Le(IntLit(0), x), Lt(x, st.alloc)))
	case "off", "len", "cap", "tag":
		m.c.Assume(Le(IntLit(0), x))
	case "str":
		m.c.Assume(Le(IntLit(0), app(SInt, "strlen", x)))
	case "fixarr":
		// elements of byte arrays are bytes: stated lazily on element reads
	}
}

var gcSizes = types.SizesFor("gc", "amd64")

// maxElems is the largest number of elements a backing array of the slice type t can have (A-slice-size).
func maxElems(t types.Type) *big.Int {
	maxInt := new(big.Int).Sub(pow2(63), big.NewInt(1))
	if t == nil {
		return maxInt
	}
	sl, ok := t.Underlying().(*types.Slice)
	if !ok {
		return maxInt
	}
	var sz int64
	func() {
		defer func() {
			if recover() != nil {
				sz = 0 // size not computable (type parameters): no bound beyond int
			}
		}()
		sz = gcSizes.Sizeof(sl.Elem())
	}()
	if sz <= 0 {
		return maxInt
	}
	return new(big.Int).Div(pow2(48), big.NewInt(sz))
}

func (m *Mem) assumeValueShape(st *State, v Value, t types.Type) {
	switch x := v.(type) {
	case SliceV:
		if m.sliceHook != nil {
			m.sliceHook(x)
		}
		// A-slice-size: no Go object is larger than 2^48 bytes (runtime maxAlloc on 64-bit linux), so a
		// backing array of elements of size k >= 1 has at most 2^48/k elements; arrays of zero-size elements
		// are only bounded by the range of int.
		m.c.Assume(And(Le(x.Len, x.Cap), Imp(Eq(x.Arr, IntLit(0)), And(Eq(x.Cap, IntLit(0)), Eq(x.Off, IntLit(0)))),
			Le(Add(x.Off, x.Cap), BigLit(maxElems(t)))))
	case IfaceV:
		m.c.Assume(Imp(Eq(x.Tag, IntLit(0)), Eq(x.Pay, IntLit(0))))
	case StructV:
		st2 := t.Underlying().(*types.Struct)
		for i, f := range x.F {
			m.assumeValueShape(st, f, st2.Field(i).Type())
		}
	case TupleV:
		tt := t.(*types.Tuple)
		for i, f := range x.V {
			m.assumeValueShape(st, f, tt.At(i).Type())
		}
	}
}

// FreshValue makes an unconstrained, well-typed value of type t.
func (m *Mem) FreshValue(st *State, prefix string, t types.Type) Value {
	lfs := leaves(t)
	terms := make([]Term, len(lfs))
	for i, lf := range lfs {
		terms[i] = m.c.Fresh(prefix+lf.Path, lf.Sort)
		m.assumeLeafType(st, terms[i], lf.T, lf.Kind)
	}
	if len(lfs) == 0 {
		return StructV{}
	}
	v, _ := m.unflatten(t, terms)
	m.assumeValueShape(st, v, t)
	return v
}

func (m *Mem) ZeroValue(t types.Type) Value {
	lfs := leaves(t)
	terms := make([]Term, len(lfs))
	for i, lf := range lfs {
		switch lf.Sort {
		case SInt:
			terms[i] = IntLit(0)
		case SBool:
			terms[i] = TFalse
		case SStr:
			terms[i] = m.c.StrLit("")
		default:
			if lf.Kind == "fixarr" {
				el := arrValSort(lf.Sort)
				var z string
				switch el {
				case SInt:
					z = "0"
				case SBool:
					z = "false"
				default:
					terms[i] = m.c.Fresh("zero", lf.Sort)
					continue
				}
				terms[i] = Term{fmt.Sprintf("((as const %s) %s)", lf.Sort, z), lf.Sort}
			} else {
				terms[i] = m.c.Fresh("zero", lf.Sort)
			}
		}
	}
	if len(lfs) == 0 {
		return StructV{}
	}
	v, _ := m.unflatten(t, terms)
	return v
}

// Alloc hands out a fresh object id.
func (m *Mem) Alloc(st *State, prefix string) Term {
	r := m.c.Fresh(prefix, SInt)
	m.nonNil[r.S] = true
	m.c.Assume(Eq(r, st.alloc))
	st.alloc = m.c.Def("alloc", Add(st.alloc, IntLit(1)))
	return r
}

// mergeValues builds ite(c, a, b) structurally.
func (m *Mem) mergeValues(c Term, a, b Value, t types.Type) (v Value, ok bool) {
	defer func() {
		if r := recover(); r != nil {
			m.c.Note(fmt.Sprintf("unsupported: merge of values of type %s: %v", typeName(t), r))
			v, ok = a, false
		}
	}()
	switch x := a.(type) {
	case PtrV:
		y := b.(PtrV)
		if x.Arr != y.Arr || len(x.Path) != len(y.Path) || (x.Idx == nil) != (y.Idx == nil) || (x.Sub == nil) != (y.Sub == nil) {
			panic("pointer shapes differ")
		}
		for i := range x.Path {
			if x.Path[i] != y.Path[i] {
				panic("pointer paths differ")
			}
		}
		r := x
		r.Base = m.c.Def("phi", Ite(c, x.Base, y.Base))
		if x.Idx != nil {
			i := m.c.Def("phi", Ite(c, *x.Idx, *y.Idx))
			r.Idx = &i
		}
		if x.Sub != nil {
			i := m.c.Def("phi", Ite(c, *x.Sub, *y.Sub))
			r.Sub = &i
		}
		return r, true
	case FuncV:
		y := b.(FuncV)
		if x.Fn == y.Fn && len(x.Bindings) == 0 && len(y.Bindings) == 0 {
			return x, true
		}
		panic("distinct function values")
	}
	ta := m.flatten(t, a)
	tb := m.flatten(t, b)
	out := make([]Term, len(ta))
	for i := range ta {
		out[i] = m.c.Def("phi", Ite(c, ta[i], tb[i]))
	}
	if len(out) == 0 {
		return a, true
	}
	r, _ := m.unflatten(t, out)
	return r, true
}

// mergeStates merges heap/ghost/alloc of several predecessor states under their edge conditions.
func (m *Mem) mergeStates(sts []*State, conds []Term) *State {
	if len(sts) == 1 {
		return sts[0].clone()
	}
	out := &State{heap: map[string]Term{}, ghost: map[string]Term{}}
	keys := map[string]bool{}
	for _, s := range sts {
		for k := range s.heap {
			keys[k] = true
		}
	}
	var ks []string
	for k := range keys {
		ks = append(ks, k)
	}
	sort.Strings(ks)
	for _, k := range ks {
		var cur Term
		have := false
		for i := len(sts) - 1; i >= 0; i-- {
			v, ok := sts[i].heap[k]
			if !ok {
				v, ok = m.heap0[k]
				if !ok {
					panic("component without initial value: " + k)
				}
			}
			if !have {
				cur, have = v, true
			} else {
				cur = Ite(conds[i], v, cur)
			}
		}
		out.heap[k] = m.c.Def(k, cur)
	}
	gk := map[string]bool{}
	for _, s := range sts {
		for k := range s.ghost {
			gk[k] = true
		}
	}
	ks = ks[:0]
	for k := range gk {
		ks = append(ks, k)
	}
	sort.Strings(ks)
	for _, k := range ks {
		var cur Term
		have := false
		for i := len(sts) - 1; i >= 0; i-- {
			v, ok := sts[i].ghost[k]
			if !ok {
				// the path has not touched this ghost value yet: it still has its value at function entry.
				// (Skipping the path - as an earlier version did - let the merged value be the one of the
				// paths that did touch it: an event recorded on one branch counted on all.)
				v, ok = m.heap0["ghost0|"+k]
				if !ok {
					if have {
						v = m.c.Fresh("ghost_"+sanitize(k), cur.Sort)
					} else {
						// initial value needs a sort: take it from any state that has the key
						for _, s2 := range sts {
							if v2, ok2 := s2.ghost[k]; ok2 {
								v = m.c.Fresh("ghost_"+sanitize(k), v2.Sort)
								break
							}
						}
					}
					m.heap0["ghost0|"+k] = v
				}
			}
			if !have {
				cur, have = v, true
			} else {
				cur = Ite(conds[i], v, cur)
			}
		}
		out.ghost[k] = m.c.Def(k, cur)
	}
	cur := sts[len(sts)-1].alloc
	for i := len(sts) - 2; i >= 0; i-- {
		cur = Ite(conds[i], sts[i].alloc, cur)
	}
	out.alloc = m.c.Def("alloc", cur)
	return out
}

// content abstraction of a byte slice
func (m *Mem) bytesContent(st *State, s SliceV) Term {
	comp := m.comp(st, "E|uint8|", m.compSort(true, SInt))
	return app(SByt, "bytes_content", Select(comp, s.Arr), s.Off, s.Len)
}

package main

import (
	"strconv"
	"os"
	"crypto/sha256"
	"fmt"
	"go/token"
	"sort"
	"strings"
	"sync"
	"time"

	"golang.org/x/tools/go/ssa"
)

type UnitResult struct {
	Func               string            `json:"func"`
	Key                string            `json:"key"`
	SSAHash            string            `json:"ssa_hash"`
	VCHash             string            `json:"-"`
	Obligations        []*OblResult      `json:"obligations"`
	Inlined            []string          `json:"inlined,omitempty"`
	SpecsUsed          []string          `json:"contracts_and_externals_used,omitempty"`
	Notes              []string          `json:"notes,omitempty"`
	Unsupported        []string          `json:"unsupported,omitempty"`
	DroppedAuto        []string          `json:"dropped_auto_invariants,omitempty"`
	KeptAuto           []string          `json:"kept_auto_invariants,omitempty"`
	Vacuity            string            `json:"vacuity"`
	UnreachableReturns []string          `json:"unreachable_return_points,omitempty"`
	DeadPosts          []string          `json:"postconditions_with_unsatisfiable_antecedent,omitempty"`
	Trusted            bool              `json:"trusted,omitempty"`
	SolverMs           int64             `json:"solver_ms"`
	WallMs             int64             `json:"wall_ms"`
	ScriptLines        int               `json:"script_lines"`
	LocalTypes         map[string]string `json:"-"`
	AllLocals          map[string]string `json:"-"`
	LocalRoles         map[string]string `json:"-"`
	unit               *Unit
}

type OblResult struct {
	Name   string `json:"name"`
	Kind   string `json:"kind"`
	Pos    string `json:"pos"`
	Status string `json:"status"` // discharged | refuted | undecided | trivial
	Solver string `json:"solver,omitempty"`
	Ms     int64  `json:"ms"`
	Detail string `json:"detail,omitempty"`
	obl    *Obligation
}

func ssaHash(fn *ssa.Function) string {
	var b strings.Builder
	fn.WriteTo(&b)
	h := sha256.Sum256([]byte(b.String()))
	return fmt.Sprintf("%x", h[:8])
}

// VerifyFunction generates and discharges all obligations of one function under contract.
func (eng *Engine) VerifyFunction(fn *ssa.Function, key string, sp *FuncSpec) *UnitResult {
	t0 := time.Now()
	res := &UnitResult{Func: shortFn(fn.String()), Key: key, SSAHash: ssaHash(fn)}
	c := NewCtx()
	u := &Unit{eng: eng, c: c, m: NewMem(c), fn: fn, spec: sp, names: map[string]int{}, inlined: map[string]bool{}, extUsed: map[string]bool{}, placedInv: map[string]bool{}, unfolded: map[string]bool{}}
	res.unit = u
	u.m.sliceHook = func(s SliceV) {
		if u.discov == 0 {
			u.shapes = append(u.shapes, shapeRec{line: u.c.Len(), len: s.Len, cap: s.Cap})
		}
	}
	if sp != nil && sp.Trusted {
		res.Trusted = true
		res.Vacuity = "n/a (trusted)"
		return res
	}
	res.LocalTypes = u.computeAliases(key)
	res.AllLocals = u.allLocals
	res.LocalRoles = u.localRoles
	func() {
		defer func() {
			if r := recover(); r != nil {
				u.unsupportedf("engine panic: %v", r)
				if debugPanics {
					panic(r)
				}
			}
		}()
		u.build()
	}()
	res.VCHash = u.vcHash()
	if os.Getenv("GOVC_DEBUG_VC") != "" {
		fmt.Fprintf(os.Stderr, "vc %s %s cached=%s\n", res.Func, res.VCHash, eng.vcCache[res.Func])
	}
	if selftestMode && len(u.unsupported) == 0 && eng.vcCache != nil && eng.vcCache[res.Func] == res.VCHash {
		// corpus run, verification conditions identical to those of the unchanged tree: reuse the verdict (vccache.go)
		for _, o := range u.obls {
			if o.Status == "" {
				o.Status, o.Solver = "unsat", "vc-cache"
			}
		}
		res.Vacuity = "n/a (verification conditions identical to the unchanged tree)"
	} else {
		u.discharge()
		// vacuity: the assumptions up to the end of the preconditions must be satisfiable
		res.Vacuity = u.vacuity()
		if len(u.reach) > 1 {
			res.UnreachableReturns = u.unreachableReturns()
		}
		res.DeadPosts = u.deadPostconditions()
	}
	for _, o := range u.obls {
		if o.Auto {
			continue
		}
		or := &OblResult{Name: o.Name, Kind: o.Kind, Pos: o.Pos, Solver: o.Solver, Ms: o.Ms, obl: o}
		switch o.Status {
		case "unsat":
			or.Status = "discharged"
		case "trivial":
			or.Status = "discharged"
			or.Solver = "trivial"
		case "sat":
			or.Status = "refuted"
			or.Detail = o.Output
		default:
			or.Status = "undecided"
			or.Detail = o.Status + ": " + firstLine(o.Output)
		}
		res.SolverMs += o.Ms
		res.Obligations = append(res.Obligations, or)
	}
	for k := range u.inlined {
		res.Inlined = append(res.Inlined, k)
	}
	sort.Strings(res.Inlined)
	for k := range u.extUsed {
		res.SpecsUsed = append(res.SpecsUsed, k)
	}
	sort.Strings(res.SpecsUsed)
	res.Notes = c.notes
	res.Unsupported = u.unsupported
	for _, cd := range u.cands {
		if cd.Auto {
			if cd.Disabled {
				res.DroppedAuto = append(res.DroppedAuto, cd.Text)
			} else {
				res.KeptAuto = append(res.KeptAuto, cd.Text)
			}
		}
	}
	res.ScriptLines = c.Len()
	res.WallMs = time.Since(t0).Milliseconds()
	return res
}

var debugPanics = false

func (u *Unit) build() {
	c, m := u.c, u.m
	st := &State{heap: map[string]Term{}, ghost: map[string]Term{}}
	st.alloc = c.Fresh("alloc0", SInt)
	// objects 1..K are the package-level variables (interior.go assignGlobalIDs)
	base := int64(1000)
	if k := int64(len(u.eng.globalIDs)) + 64; k > base {
		base = k
	}
	c.Assume(Gt(st.alloc, IntLit(base)))
	m.alloc0 = st.alloc
	u.entrySt = st
	fr := u.newFrame(u.fn, nil)
	for _, p := range u.fn.Params {
		v := m.FreshValue(st, "p_"+p.Name(), p.Type())
		fr.env[p] = v
		u.params = append(u.params, v)
	}
	for _, fv := range u.fn.FreeVars {
		v := m.FreshValue(st, "fv_"+fv.Name(), fv.Type())
		if pv, ok := v.(PtrV); ok {
			c.Assume(Ne(pv.Base, IntLit(0))) // the cell of a captured variable always exists
		}
		fr.freeVars = append(fr.freeVars, v)
		u.freeVars = append(u.freeVars, v)
	}
	// global axioms
	for _, ax := range u.eng.specs.Axioms {
		env := &SpecEnv{u: u, st: st, old: st, names: map[string]SVal{}}
		t, err := env.evalHyp(ax.E)
		if err != nil {
			u.unsupportedf("axiom %q: %v", ax.Text, err)
			continue
		}
		from := c.Len()
		c.Assume(t)
		// an axiom is only put into a query that mentions one of its function symbols elsewhere
		syms := map[string]bool{}
		callsOf(ax.E, syms)
		ar := axiomRange{from: from, to: c.Len()}
		for s := range syms {
			// only declared (uninterpreted / recursive / heap) specification functions make an axiom relevant;
			// builtins such as store, ite, len occur in almost every query
			_, isU := u.eng.specs.UFns[s]
			_, isR := u.eng.specs.RecFns[s]
			_, isH := u.eng.specs.HFns[s]
			if isU || isR || isH {
				ar.syms = append(ar.syms, "("+s+" ")
			}
		}
		u.axioms = append(u.axioms, ar)
	}
	entry := st.clone()
	u.entrySt = entry
	if u.spec != nil {
		env := u.specEnvForUnit(entry, entry, nil)
		for _, rq := range u.spec.Requires {
			t, err := env.evalHyp(rq.E)
			if err != nil {
				u.unsupportedf("requires %q: %v", rq.Text, err)
				continue
			}
			c.Assume(t)
		}
	}
	u.reach = append(u.reach, reachCheck{"requires", c.Len(), TTrue})
	if len(u.fn.Blocks) == 0 {
		u.unsupportedf("function %s has no body", u.fn.String())
		return
	}
	fr.run(nil, u.fn.Blocks[0], entry, TTrue, nil, false)
	if u.spec != nil {
		for _, inv := range u.spec.Invs {
			if !u.placedInv[inv.Text] {
				u.unsupportedf("invariant %q could not be attached to any loop of %s (unresolved names?)", inv.Text, u.fn.Name())
			}
		}
	}
	// postconditions at every return point
	if u.spec != nil {
		for _, r := range fr.rets {
			env := u.specEnvForUnit(r.st, u.entrySt, r.vals)
			// source locals visible at the return point may be named in postconditions (ghost use)
			locals := map[string]SVal{}
			env.allowUndefined = true
			fr.localNames(r.blk, true, r.st, locals)
			for k, v := range locals {
				if _, taken := env.names[k]; !taken {
					env.names[k] = v
				}
			}
			u.reach = append(u.reach, reachCheck{fmt.Sprintf("return@%s", posString(u.eng.prog, lastPos(r.blk))), u.c.Len(), r.pc})
			// lock balance: every mutex the function locked or unlocked is held as often as at entry
			var lockKeys []string
			for k := range r.st.ghost {
				if strings.HasPrefix(k, "lock|") {
					lockKeys = append(lockKeys, k)
				}
			}
			sort.Strings(lockKeys)
			for _, k := range lockKeys {
				u.oblige(fr, "lock-balance", u.fn.Pos(), "mutex released on every path", r.pc, Eq(r.st.ghost[k], u.ghostInit(k)))
			}
			for _, en := range u.spec.Ensures {
				t, err := env.evalGoal(en.E)
				if err != nil {
					u.unsupportedf("ensures %q: %v", en.Text, err)
					continue
				}
				u.oblige(fr, "post", u.fn.Pos(), en.Text, r.pc, t)
				if bin, ok := en.E.(SBinary); ok && bin.Op == "==>" {
					if at, err := env.evalHyp(bin.X); err == nil {
						u.antecedents = append(u.antecedents, antecedentCheck{en.Text, u.c.Len(), And(r.pc, at)})
					}
				}
			}
		}
	}
}

func (u *Unit) script(o *Obligation, active map[string]bool) string {
	var b strings.Builder
	skip := map[int]bool{}
	inAxiom := map[int]bool{}
	for _, ar := range u.axioms {
		for i := ar.from; i < ar.to; i++ {
			inAxiom[i] = true
		}
	}
	for _, ar := range u.axioms {
		if len(ar.syms) == 0 || ar.to > o.Prefix {
			continue
		}
		used := false
		for i, l := range u.c.lines[:o.Prefix] {
			if inAxiom[i] || strings.HasPrefix(l, "(declare-") {
				continue // other axioms do not make an axiom relevant
			}
			for _, s := range ar.syms {
				if strings.Contains(l, s) {
					used = true
					break
				}
			}
			if used {
				break
			}
		}
		if !used {
			for _, s := range ar.syms {
				if strings.Contains(o.Goal.S, s) {
					used = true
				}
			}
		}
		if !used {
			for i := ar.from; i < ar.to; i++ {
				skip[i] = true
			}
		}
	}
	for i, l := range u.c.lines[:o.Prefix] {
		if skip[i] {
			continue
		}
		b.WriteString(l)
		b.WriteByte('\n')
	}
	for _, cd := range u.cands {
		// a flag may only be mentioned if it is declared within the prefix
		if !flagDeclared(u.c.lines[:o.Prefix], cd.Flag) {
			continue
		}
		if active[cd.Flag] {
			fmt.Fprintf(&b, "(assert %s)\n", cd.Flag)
		} else {
			fmt.Fprintf(&b, "(assert (not %s))\n", cd.Flag)
		}
	}
	fmt.Fprintf(&b, "(assert (not %s))\n", o.Goal.S)
	return b.String()
}

// scriptFor is script with the goal replaced by one of its conjuncts.
func (u *Unit) scriptFor(o *Obligation, active map[string]bool, goal string) string {
	o2 := *o
	o2.Goal = Term{goal, SBool}
	return u.script(&o2, active)
}

var flagDeclCache sync.Map

func flagDeclared(lines []string, flag string) bool {
	// flags are declared in order; search backwards a bounded distance is not safe, so scan
	needle := "(declare-const " + flag + " Bool)"
	for i := len(lines) - 1; i >= 0; i-- {
		if lines[i] == needle {
			return true
		}
	}
	return false
}

// autoTimeoutS is the solver limit for automatic invariant candidates (GOVC_AUTO_T overrides it for experiments).
var autoTimeoutS = func() int {
	if v := os.Getenv("GOVC_AUTO_T"); v != "" {
		if n, err := strconv.Atoi(v); err == nil && n >= 1 {
			return n
		}
	}
	return 2
}()

func (u *Unit) solveAll(obls []*Obligation, active map[string]bool) {
	var wg sync.WaitGroup
	sem := make(chan struct{}, 6)
	for _, o := range obls {
		if o.Goal.S == "true" {
			o.Status = "trivial"
			continue
		}
		o := o
		wg.Add(1)
		go func() {
			defer wg.Done()
			sem <- struct{}{}
			defer func() { <-sem }()
			to := u.eng.timeoutS
			if o.Auto && to > autoTimeoutS {
				to = autoTimeoutS // automatic candidates are optional: do not wait long for them
			}
			// a goal that splits (conjuncts; one part per path into a join) gets a short first attempt as a whole:
			// its parts are usually decided much faster than the whole
			var parts []string
			to1 := to
			if !o.Auto {
				parts = splitGoal(o.Goal.S)
				if parts != nil && to > 4 && !u.eng.requireAll {
					to1 = 4
				}
			}
			r := Solve(u.script(o, active), nil, to1, u.eng.requireAll && !o.Auto)
			o.Status, o.Solver, o.Ms, o.Output = r.Status, r.Solver, r.Ms, r.Output
			if !o.Auto && r.Status != "unsat" && r.Status != "sat" {
				// undecided: try the parts of the goal one at a time (an equivalent set of goals)
				if parts != nil {
					all := true
					var ms int64
					solver := ""
					for _, p := range parts {
						pr := Solve(u.scriptFor(o, active, p), nil, to, false)
						ms += pr.Ms
						if pr.Status == "sat" {
							o.Status, o.Solver, o.Output = "sat", pr.Solver, pr.Output
							all = false
							break
						}
						if pr.Status != "unsat" {
							all = false
							break
						}
						solver = pr.Solver
					}
					o.Ms += ms
					if all {
						o.Status, o.Solver = "unsat", fmt.Sprintf("%s (goal split in %d)", solver, len(parts))
					}
				}
				if o.Status != "unsat" && o.Status != "sat" && to1 < to {
					r2 := Solve(u.script(o, active), nil, to, false)
					o.Ms += r2.Ms
					if r2.Status == "unsat" || r2.Status == "sat" {
						o.Status, o.Solver, o.Output = r2.Status, r2.Solver, r2.Output
					}
				}
			}
		}()
	}
	wg.Wait()
}

// discharge runs Houdini over the automatic candidates and then proves everything else.
func (u *Unit) discharge() {
	active := map[string]bool{}
	for _, cd := range u.cands {
		if !cd.Disabled {
			active[cd.Flag] = true
		}
	}
	byCand := map[int]*Candidate{}
	for _, cd := range u.cands {
		byCand[cd.ID] = cd
	}
	var invObls, rest []*Obligation
	for _, o := range u.obls {
		if o.Kind == "inv-init" || o.Kind == "inv-step" {
			invObls = append(invObls, o)
		} else {
			rest = append(rest, o)
		}
	}
	for iter := 0; iter < 12; iter++ {
		var todo []*Obligation
		for _, o := range invObls {
			cd := byCand[o.CandID]
			if cd == nil || cd.Disabled {
				continue
			}
			todo = append(todo, o)
		}
		u.solveAll(todo, active)
		changed := false
		for _, o := range todo {
			cd := byCand[o.CandID]
			if o.Status != "unsat" && o.Status != "trivial" && cd.Auto && !cd.Disabled {
				cd.Disabled = true
				delete(active, cd.Flag)
				changed = true
			}
		}
		if !changed {
			break
		}
	}
	u.solveAll(rest, active)
	u.finalActive = active
}

func lastPos(b *ssa.BasicBlock) token.Pos {
	for i := len(b.Instrs) - 1; i >= 0; i-- {
		if p := b.Instrs[i].Pos(); p.IsValid() {
			return p
		}
	}
	return token.NoPos
}

// unreachableReturns lists return points whose path condition is unsatisfiable under the contract's
// preconditions and the assumed contracts of callees: postconditions there hold vacuously.
func (u *Unit) unreachableReturns() []string {
	var out []string
	var mu sync.Mutex
	var wg sync.WaitGroup
	sem := make(chan struct{}, 4)
	for _, rc := range u.reach[1:] {
		if rc.Pc.S == "true" {
			continue
		}
		rc := rc
		wg.Add(1)
		go func() {
			defer wg.Done()
			sem <- struct{}{}
			defer func() { <-sem }()
			// same query construction as for obligations (axioms nothing mentions are left out: they cannot make
			// a path condition unsatisfiable, and quantified axioms turn a quick "sat" into a timeout)
			r := Solve(u.script(&Obligation{Prefix: rc.Prefix, Goal: Not(rc.Pc)}, u.finalActive), nil, 3, false)
			if r.Status == "unsat" {
				mu.Lock()
				out = append(out, rc.Name)
				mu.Unlock()
			}
		}()
	}
	wg.Wait()
	sort.Strings(out)
	return out
}

// deadPostconditions returns the `A ==> B` postconditions whose antecedent A cannot hold at ANY return point
// under the assumed contracts: such a clause says nothing (it is discharged vacuously everywhere). It is a
// warning, not a verdict; it exposed an external contract that made a buffer look permanently empty.
func (u *Unit) deadPostconditions() []string {
	byClause := map[string][]antecedentCheck{}
	var order []string
	for _, a := range u.antecedents {
		if _, seen := byClause[a.Clause]; !seen {
			order = append(order, a.Clause)
		}
		byClause[a.Clause] = append(byClause[a.Clause], a)
	}
	var out []string
	var mu sync.Mutex
	var wg sync.WaitGroup
	sem := make(chan struct{}, 6)
	for _, cl := range order {
		cl := cl
		wg.Add(1)
		go func() {
			defer wg.Done()
			sem <- struct{}{}
			defer func() { <-sem }()
			alive := false
			static := true // the antecedent is the literal false everywhere (a typearg() clause of another instantiation)
			for _, a := range byClause[cl] {
				if a.Cond.S == "false" {
					continue
				}
				static = false
				if r := Solve(u.script(&Obligation{Prefix: a.Prefix, Goal: Not(a.Cond)}, u.finalActive), nil, 2, false); r.Status != "unsat" {
					alive = true
					break
				}
			}
			if !alive && !static {
				mu.Lock()
				out = append(out, cl)
				mu.Unlock()
			}
		}()
	}
	wg.Wait()
	sort.Strings(out)
	return out
}

func (u *Unit) vacuity() string {
	if len(u.reach) == 0 {
		return "n/a"
	}
	rc := u.reach[0]
	// same query construction as for obligations (axioms that no line mentions are left out: quantified
	// axioms only turn a "sat" into "unknown" here)
	r := Solve(u.script(&Obligation{Prefix: rc.Prefix, Goal: TFalse}, map[string]bool{}), nil, 3, false)
	switch r.Status {
	case "sat":
		return "preconditions satisfiable (" + r.Solver + ")"
	case "unsat":
		return "VACUOUS: preconditions and typing assumptions are contradictory"
	}
	return "preconditions not shown satisfiable within the limit (" + r.Status + ")"
}

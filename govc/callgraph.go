package main

// Structural frame obligation for determinism (C09): no function reachable from an ABCI method may
// consult an ambient input (clock, randomness, environment), start a goroutine, receive from a channel
// or range over a map outside a function that is under an order-independence / functional contract.

import (
	"fmt"
	"go/types"
	"sort"
	"strings"

	"golang.org/x/tools/go/ssa"
)

type ambientFinding struct {
	Entry string
	Path  []string
	What  string
}

var ambientForbidden = []string{"time.Now", "time.Since", "time.Until", "math/rand.", "math/rand/v2.", "crypto/rand.", "os.Getenv", "os.LookupEnv", "os.Hostname", "os.Getpid", "runtime.NumGoroutine"}

// abciNoAmbientInput walks the static call graph (plus interface invokes resolved to in-repo methods
// by name) from the given entry points.
func (eng *Engine) abciNoAmbientInput(entries []string, allowed map[string]string, mapRangeOK map[string]bool) (checked []string, findings []ambientFinding, reachable int) {
	for _, e := range entries {
		key := modPath + "/" + e
		fns := eng.funcs[key]
		if len(fns) == 0 {
			findings = append(findings, ambientFinding{Entry: e, What: "entry point not found"})
			continue
		}
		seen := map[*ssa.Function]bool{}
		var walk func(fn *ssa.Function, path []string)
		walk = func(fn *ssa.Function, path []string) {
			if seen[fn] {
				return
			}
			seen[fn] = true
			name := shortFn(fn.String())
			if _, ok := allowed[name]; ok {
				return // audited exception (its effect does not reach a response or consensus state)
			}
			path = append(append([]string{}, path...), name)
			for _, b := range fn.Blocks {
				for _, ins := range b.Instrs {
					switch x := ins.(type) {
					case *ssa.Go:
						findings = append(findings, ambientFinding{e, path, "go statement"})
					case *ssa.UnOp:
						if x.Op.String() == "<-" {
							findings = append(findings, ambientFinding{e, path, "channel receive"})
						}
					case *ssa.Select:
						findings = append(findings, ambientFinding{e, path, "select statement"})
					case *ssa.FieldAddr:
						// node-local state (filled by CheckTx from the local mempool) is an ambient input for the
						// methods that execute blocks: they may reset it or refresh its member list, not consult it
						if e != "app::(*ShutterApp).CheckTx" {
							if what := nodeLocalUse(x); what != "" {
								findings = append(findings, ambientFinding{e, path, what})
							}
						}
					case *ssa.Range:
						if _, isMap := x.X.Type().Underlying().(*types.Map); isMap && !mapRangeOK[stripTypeArgs(name)] {
							findings = append(findings, ambientFinding{e, path, "range over a map in a function without an order-independence or functional contract"})
						}
					}
					cc, ok := ins.(ssa.CallInstruction)
					if !ok {
						continue
					}
					com := cc.Common()
					if callee := com.StaticCallee(); callee != nil {
						full := callee.String()
						for _, f := range ambientForbidden {
							if strings.HasPrefix(full, f) || full == f {
								findings = append(findings, ambientFinding{e, path, "call of " + full})
							}
						}
						pp := fnPkgPath(callee)
						if (isRepoPkg(pp) || callee.Parent() != nil) && len(callee.Blocks) > 0 {
							walk(callee, path)
						}
						continue
					}
					if com.IsInvoke() {
						// interface method: follow every in-repo implementation with that method name
						for k, fs := range eng.funcs {
							if strings.HasSuffix(k, ")."+com.Method.Name()) {
								for _, f := range fs {
									if f.Signature.Recv() != nil && types.Implements(f.Signature.Recv().Type(), com.Value.Type().Underlying().(*types.Interface)) {
										walk(f, path)
									}
								}
							}
						}
					}
				}
			}
		}
		for _, fn := range fns {
			walk(fn, nil)
		}
		reachable += len(seen)
		checked = append(checked, fmt.Sprintf("%s: %d functions reachable", e, len(seen)))
	}
	sort.Strings(checked)
	return
}

// nodeLocalFields are struct fields holding state that is not a function of the block sequence.
var nodeLocalFields = map[string]map[string]bool{
	// field -> methods that may be called on the value read from it by block-executing code
	"app.ShutterApp.CheckTxState": {"Reset": true, "SetMembers": true},
}

func nodeLocalUse(fa *ssa.FieldAddr) string {
	k := fieldKey(fa)
	allowed, ok := nodeLocalFields[k]
	if !ok {
		return ""
	}
	for _, r := range *fa.Referrers() {
		switch x := r.(type) {
		case *ssa.DebugRef:
			continue
		case *ssa.Store:
			if x.Addr == fa {
				continue // overwriting the whole field
			}
		case *ssa.UnOp:
			okUse := true
			for _, r2 := range *x.Referrers() {
				switch y := r2.(type) {
				case *ssa.DebugRef:
					continue
				case ssa.CallInstruction:
					if callee := y.Common().StaticCallee(); callee != nil && allowed[callee.Name()] && len(y.Common().Args) > 0 && y.Common().Args[0] == ssa.Value(x) {
						continue
					}
				}
				okUse = false
			}
			if okUse {
				continue
			}
		}
		return "use of node-local state " + k + " (filled by CheckTx from the local mempool, not by the block sequence) other than resetting it"
	}
	return ""
}

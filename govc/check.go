package main

import (
	"crypto/sha256"
	"encoding/json"
	"flag"
	"fmt"
	"os"
	"os/exec"
	"path/filepath"
	"sort"
	"strconv"
	"strings"
	"sync"
	"time"
)

type PropConfig struct {
	ID          string   `json:"id"`
	Packages    []string `json:"packages"`
	Units       []string `json:"units"`
	Assumptions []string `json:"assumptions"`
	Outside     string   `json:"outside"`
	Bounded     []string `json:"bounded,omitempty"`
	Extra       []string `json:"extra_checks,omitempty"` // names of built-in structural checks
}

type KnownFindings struct {
	Findings []struct {
		Property   string `json:"property"`
		Obligation string `json:"obligation"`
		What       string `json:"what"`
	} `json:"findings"`
	Fixed []string `json:"fixed"`
}

type Baseline struct {
	Property    string            `json:"property"`
	Obligations map[string]string `json:"obligations"`
}

// selftestMode (GOVC_SELFTEST=1, set by tools/selftest.sh for runs on mutated scratch copies): no replay construction; the question is only whether a violation
// is reported.
var selftestMode = os.Getenv("GOVC_SELFTEST") == "1"

func cmdCheck(args []string) int {
	fs := flag.NewFlagSet("check", flag.ExitOnError)
	prop := fs.String("prop", "", "property id")
	tier := fs.String("tier", "quick", "quick|thorough")
	update := fs.Bool("update-baseline", false, "record the discharged obligations of this run as the baseline")
	verbose := fs.Bool("v", false, "print every obligation")
	fs.Parse(args)
	if os.Getenv("VERIF_TIER") != "" && *tier == "" {
		*tier = os.Getenv("VERIF_TIER")
	}
	seed := 0
	if s := os.Getenv("VERIF_SEED"); s != "" {
		seed, _ = strconv.Atoi(s)
	}
	t0 := time.Now()
	var cfg PropConfig
	data, err := os.ReadFile(filepath.Join("/verif/props", *prop+".json"))
	if err != nil {
		fmt.Fprintln(os.Stderr, "config:", err)
		return 2
	}
	if err := json.Unmarshal(data, &cfg); err != nil {
		fmt.Fprintln(os.Stderr, "config:", err)
		return 2
	}
	var kf KnownFindings
	if d, err := os.ReadFile("/verif/known_findings.json"); err == nil {
		json.Unmarshal(d, &kf)
	}
	var base Baseline
	if d, err := os.ReadFile(filepath.Join("/verif/baseline", cfg.ID+".json")); err == nil {
		json.Unmarshal(d, &base)
	}
	eng, err := LoadEngine(cfg.Packages)
	if err != nil {
		fmt.Fprintln(os.Stderr, "ENGINE-ERROR load:", err)
		return 2
	}
	if *tier == "thorough" {
		eng.timeoutS = 60
		eng.requireAll = true
	}
	if selftestMode && os.Getenv("GOVC_NOVCCACHE") == "" {
		eng.vcCache = loadVCCache()[cfg.ID]
	}
	type job struct {
		key string
		res []*UnitResult
	}
	jobs := make([]*job, len(cfg.Units))
	var wg sync.WaitGroup
	sem := make(chan struct{}, 6) // units in flight; solver processes are bounded separately (procSem)
	var missing []string
	for i, key := range cfg.Units {
		full := modPath + "/" + key
		if strings.HasPrefix(key, "::") {
			full = modPath + key
		}
		fns := eng.funcs[full]
		jobs[i] = &job{key: key}
		if len(fns) == 0 {
			missing = append(missing, key)
			continue
		}
		sp := eng.specs.Funcs[full]
		if sp == nil {
			fmt.Fprintf(os.Stderr, "ENGINE-ERROR: no contract for unit %s\n", key)
			return 2
		}
		for _, fn := range fns {
			fn := fn
			j := jobs[i]
			wg.Add(1)
			go func() {
				defer wg.Done()
				sem <- struct{}{}
				defer func() { <-sem }()
				r := eng.VerifyFunction(fn, full, sp)
				mu.Lock()
				j.res = append(j.res, r)
				mu.Unlock()
			}()
		}
	}
	wg.Wait()

	known := map[string]string{}
	for _, f := range kf.Findings {
		if f.Property == cfg.ID {
			known[f.Obligation] = f.What
		}
	}
	var violations []*ReplayInfo
	var pending []*ReplayInfo
	type buildJob struct {
		u      *Unit
		o      *Obligation
		prefix string
	}
	var toBuild []buildJob
	var knownHit []string
	total, discharged := 0, 0
	solverCount := map[string]int{}
	var solverMs int64
	var samples []interface{}
	type sampleCand struct {
		prio int
		m    map[string]interface{}
	}
	var sampleCands []sampleCand
	sampleKinds := map[string]int{}
	var funcs []interface{}
	var notProved []string
	var unsupported []string
	newBase := map[string]string{}
	usedSpecs := map[string]bool{}
	notes := map[string]bool{}
	os.RemoveAll(filepath.Join(outRoot, "replays", cfg.ID))
	os.MkdirAll(filepath.Join(outRoot, "replays", cfg.ID), 0o755)

	report := func(ri *ReplayInfo) {
		h := sha256.Sum256([]byte(ri.Obligation))
		path := filepath.Join(outRoot, "replays", cfg.ID, fmt.Sprintf("%x.json", h[:6]))
		writeJSON(path, ri)
		line := fmt.Sprintf("VIOLATION property=%s replay=%s obligation=%q", cfg.ID, path, ri.Obligation)
		if !ri.Reproduced {
			line += " no-failing-input-found"
		}
		fmt.Println(line)
		violations = append(violations, ri)
	}
	for _, key := range missing {
		report(&ReplayInfo{Property: cfg.ID, Obligation: key + "/unit-exists", Kind: "unit-exists", Function: key,
			SolverSays: "n/a", Reason: "the function under contract no longer exists, so its contract cannot be checked"})
	}
	retried := map[*OblResult]SolveResult{}
	{
		var rwg sync.WaitGroup
		rsem := make(chan struct{}, 5)
		for _, j := range jobs {
			for _, r := range j.res {
				for _, o := range r.Obligations {
					if o.Status == "undecided" {
						if _, isKnown := known[o.Name]; isKnown {
							continue
						}

						o, u := o, r.unit
						rwg.Add(1)
						go func() {
							defer rwg.Done()
							rsem <- struct{}{}
							defer func() { <-rsem }()
							rr := Solve(u.script(o.obl, u.finalActive), nil, eng.timeoutS*2, false)
							mu.Lock()
							retried[o] = rr
							mu.Unlock()
						}()
					}
				}
			}
		}
		rwg.Wait()
	}
	for _, j := range jobs {
		for _, r := range j.res {
			u := r.unit
			fe := map[string]interface{}{"function": r.Func, "ssa_hash": r.SSAHash, "obligations": len(r.Obligations),
				"inlined": r.Inlined, "contracts_and_externals_used": r.SpecsUsed, "vacuity": r.Vacuity,
				"solver_ms": r.SolverMs, "script_lines": r.ScriptLines, "kept_auto_invariants": r.KeptAuto, "unreachable_return_points": r.UnreachableReturns, "postconditions_with_unsatisfiable_antecedent": r.DeadPosts}
			for _, dp := range r.DeadPosts {
				fmt.Printf("VACUITY-WARNING %s: the antecedent of postcondition %q cannot hold at any return point under the assumed contracts\n", r.Func, dp)
			}
			for _, ur := range r.UnreachableReturns {
				fmt.Printf("VACUITY-WARNING %s: return point %s is unreachable under the assumed contracts\n", r.Func, ur)
			}
			funcs = append(funcs, fe)
			for _, s := range r.SpecsUsed {
				usedSpecs[s] = true
			}
			for _, n := range r.Notes {
				notes[n] = true
			}
			for _, n := range r.Unsupported {
				unsupported = append(unsupported, r.Func+": "+n)
			}
			if len(r.Unsupported) > 0 {
				// a function under contract left the supported subset: its obligations are undecided
				pending = append(pending, &ReplayInfo{Property: cfg.ID, Obligation: r.Func + "/supported-subset", Kind: "supported-subset",
					Function: r.Func, SolverSays: "undecided", Reason: "the function under contract uses a construct outside the verifier's subset, so its contract is no longer proved: " + strings.Join(r.Unsupported, "; ")})
			}
			if strings.HasPrefix(r.Vacuity, "VACUOUS") {
				fmt.Printf("ENGINE-ERROR: %s: %s\n", r.Func, r.Vacuity)
				return 2
			}
			if len(r.Obligations) == 0 && !r.Trusted {
				fmt.Printf("ENGINE-ERROR: %s generated no obligations\n", r.Func)
				return 2
			}
			for _, o := range r.Obligations {
				total++
				solverMs += o.Ms
				if *verbose {
					fmt.Printf("  %-10s %-9s %5dms %s  @%s\n", o.Status, o.Solver, o.Ms, o.Name, o.Pos)
				}
				switch o.Status {
				case "discharged":
					discharged++
					solverCount[o.Solver]++
					newBase[o.Name] = "discharged"
					if o.Solver != "trivial" {
						// samples: one or two obligations of each interesting kind, postconditions and invariants first
						prio := map[string]int{"post": 0, "inv-step": 1, "pre": 2, "index": 3, "slice": 3, "order-indep": 0, "lock-balance": 2, "inv-init": 4, "nil-deref": 5, "frame": 6}
						pr, ok := prio[o.Kind]
						if !ok {
							pr = 5
						}
						if sampleKinds[o.Kind] < 2 {
							sampleKinds[o.Kind]++
							sampleCands = append(sampleCands, sampleCand{pr, map[string]interface{}{"obligation": o.Name, "kind": o.Kind, "pos": o.Pos,
								"result": "unsat", "solver": o.Solver, "ms": o.Ms, "goal": clip(o.obl.Goal.S, 400)}})
						}
					}
				case "refuted":
					if what, ok := known[o.Name]; ok {
						knownHit = append(knownHit, fmt.Sprintf("KNOWN-FINDING: property=%s %s (%s)", cfg.ID, o.Name, what))
						continue
					}
					toBuild = append(toBuild, buildJob{u, o.obl, ""})
				default: // undecided
					if what, ok := known[o.Name]; ok {
						knownHit = append(knownHit, fmt.Sprintf("KNOWN-FINDING: property=%s %s (%s)", cfg.ID, o.Name, what))
						continue
					}
					// retried (once, longer limit) in parallel before classification
					rr := retried[o]
					if rr.Status == "unsat" {
						discharged++
						solverCount[rr.Solver]++
						newBase[o.Name] = "discharged"
						continue
					}
					o.obl.Status, o.obl.Solver, o.obl.Output = rr.Status, rr.Solver, rr.Output
					if rr.Status == "sat" {
						toBuild = append(toBuild, buildJob{u, o.obl, ""})
						continue
					}
					// Every obligation of a function under contract is discharged on the unchanged tree (that is
					// what the committed baseline records). An obligation that cannot be discharged therefore means
					// the contract is no longer proved; it is reported, with whatever the replay can show.
					if base.Obligations[o.Name] == "discharged" {
						toBuild = append(toBuild, buildJob{u, o.obl, "obligation was discharged on the unchanged tree and is now undecided (" + rr.Status + "); "})
					} else {
						notProved = append(notProved, o.Name+": "+o.Detail)
						toBuild = append(toBuild, buildJob{u, o.obl, "obligation does not exist in the baseline of the unchanged tree (the code of this function changed) and the solvers could not decide it (" + rr.Status + "); "})
					}
				}
			}
		}
	}
	sort.SliceStable(sampleCands, func(i, j int) bool { return sampleCands[i].prio < sampleCands[j].prio })
	for i, sc := range sampleCands {
		if i >= 8 {
			break
		}
		samples = append(samples, sc.m)
	}
	// built-in structural checks
	var extraEvidence []interface{}
	for _, ex := range cfg.Extra {
		if ex == "abci-no-ambient-input" {
			entries := []string{"app::(*ShutterApp).InitChain", "app::(*ShutterApp).BeginBlock", "app::(*ShutterApp).CheckTx", "app::(*ShutterApp).DeliverTx",
				"app::(*ShutterApp).EndBlock", "app::(*ShutterApp).Commit", "app::(*ShutterApp).PrepareProposal", "app::(*ShutterApp).ProcessProposal", "app::(*ShutterApp).Info"}
			allowed := map[string]string{
				"(*app.ShutterApp).maybePersistToDisk": "reads the clock only to decide WHEN to write the state file (LastSaved); neither response nor consensus state depends on it",
				"(*app.ShutterApp).PersistToDisk":      "writes the state file and records LastSaved",
			}
			mapRangeOK := map[string]bool{}
			for _, key := range cfg.Units {
				full := modPath + "/" + key
				for _, fn := range eng.funcs[full] {
					mapRangeOK[stripTypeArgs(shortFn(fn.String()))] = true
				}
			}
			checked, findings, n := eng.abciNoAmbientInput(entries, allowed, mapRangeOK)
			total++
			if len(findings) == 0 {
				discharged++
				solverCount["call-graph walk"]++
				newBase["abci/no-ambient-input"] = "discharged"
			} else {
				for _, f := range findings {
					pending = append(pending, &ReplayInfo{Property: cfg.ID, Obligation: "abci/no-ambient-input[" + f.What + " via " + strings.Join(f.Path, " > ") + "]", Kind: "frame-callgraph",
						Function: f.Entry, SolverSays: "syntactic", Reason: "an ABCI method can reach " + f.What + "; its result may then depend on something outside the block sequence"})
				}
			}
			extraEvidence = append(extraEvidence, map[string]interface{}{"check": ex, "entries": checked, "functions_reachable": n, "audited_exceptions": allowed, "findings": len(findings)})
		}
	}
	{
		built := make([]*ReplayInfo, len(toBuild))
		var bwg sync.WaitGroup
		bsem := make(chan struct{}, 6)
		for i, bj := range toBuild {
			i, bj := i, bj
			bwg.Add(1)
			go func() {
				defer bwg.Done()
				bsem <- struct{}{}
				defer func() { <-bsem }()
				var ri *ReplayInfo
				if selftestMode {
					ri = &ReplayInfo{Property: cfg.ID, Obligation: bj.o.Name, Kind: bj.o.Kind, Function: bj.o.Func, SolverSays: bj.o.Status, Reason: "selftest run: replay construction skipped"}
				} else {
					ri = bj.u.buildReplay(bj.o, cfg.ID, 8)
				}
				if bj.prefix != "" {
					ri.Reason = strings.TrimSpace(bj.prefix + ri.Reason)
				}
				built[i] = ri
			}()
		}
		bwg.Wait()
		pending = append(pending, built...)
	}
	runReplays(pending)
	for _, ri := range pending {
		report(ri)
	}
	sort.Strings(knownHit)
	for _, l := range knownHit {
		fmt.Println(l)
	}
	for _, n := range unsupported {
		fmt.Println("UNSUPPORTED:", n)
	}
	if *update {
		// types of the locals named by the contracts (rename tolerance, rename.go)
		lt := loadLocalTypes()
		for _, j := range jobs {
			for _, r := range j.res {
				if len(r.LocalTypes) > 0 {
					lt[r.Key] = r.LocalTypes
					lt[r.Key+"#all"] = r.AllLocals
					lt[r.Key+"#roles"] = r.LocalRoles
				}
			}
		}
		// hashes of the verification conditions of fully discharged functions (vccache.go)
		vc := loadVCCache()
		mine := map[string]string{}
		for _, j := range jobs {
			for _, r := range j.res {
				ok := len(r.Unsupported) == 0 && r.VCHash != ""
				for _, o := range r.Obligations {
					if o.Status != "discharged" {
						ok = false
					}
				}
				if ok {
					mine[r.Func] = r.VCHash
				}
			}
		}
		vc[cfg.ID] = mine
		writeJSON(vcCacheFile, vc)
		os.MkdirAll("/verif/baseline", 0o755)
		writeJSON(localsFile, lt)
		writeJSON(filepath.Join("/verif/baseline", cfg.ID+".json"), Baseline{Property: cfg.ID, Obligations: newBase})
	}
	// evidence
	var assumptions []string
	assumptions = append(assumptions, cfg.Assumptions...)
	var ext []string
	for s := range usedSpecs {
		ext = append(ext, s)
	}
	sort.Strings(ext)
	for _, s := range ext {
		if strings.HasPrefix(s, "contract:") {
			continue
		}
		if strings.HasPrefix(s, "assumed-clause:") {
			assumptions = append(assumptions, "assumed (unchecked) postcondition clause of "+strings.TrimPrefix(s, "assumed-clause:"))
			continue
		}
		if strings.HasPrefix(s, "db:") {
			assumptions = append(assumptions, "A-sql: generated sqlc query treated as opaque (arbitrary well-typed result or error, no effect on the Go heap, does not panic): "+strings.TrimPrefix(s, "db:"))
			continue
		}
		if strings.HasPrefix(s, "havoc:") {
			assumptions = append(assumptions, "unmodelled external (assumed to terminate and not to panic; results arbitrary; it may rewrite the objects its arguments designate directly - pointee fields, slice elements, the pointee of a pointer held in an interface - and every ghost abstraction, but objects further down are assumed unchanged: A-havoc-depth): "+strings.TrimPrefix(s, "havoc:"))
			continue
		}
		if sp := eng.specs.Funcs[s]; sp != nil {
			var cl []string
			for _, c := range sp.Requires {
				cl = append(cl, "requires "+c.Text)
			}
			for _, c := range sp.Ensures {
				cl = append(cl, "ensures "+c.Text)
			}
			if len(sp.Assigns) > 0 {
				cl = append(cl, "assigns "+strings.Join(sp.Assigns, ", "))
			}
			assumptions = append(assumptions, "assumed external contract "+s+": "+strings.Join(cl, "; "))
		}
	}
	var ns []string
	for n := range notes {
		ns = append(ns, n)
	}
	sort.Strings(ns)
	for _, n := range ns {
		assumptions = append(assumptions, "engine abstraction: "+n)
	}
	assumptions = append(assumptions,
		"A-ssa: go/ssa (x/tools v0.29.0) and govc's translation of it mean what the Go compiler compiles (tested by the must-fail corpus, not verified)",
		"A-solver: z3 4.8.12, z3 5.1.0, cvc5 1.0 are sound",
		"A-alias: a pointer parameter of struct type T does not point into the interior of another parameter's object")
	ev := map[string]interface{}{
		"property_id": cfg.ID, "tier": *tier, "seed": seed, "level": "proof",
		"coverage": map[string]interface{}{
			"obligations": total, "discharged": discharged,
			"checker_cmd": fmt.Sprintf("/verif/check %s %s", cfg.ID, *tier),
			"trusted_base": []string{"z3 4.8.12", "z3 5.1.0 (z3-new)", "cvc5 1.0", "golang.org/x/tools v0.29.0 go/ssa", "govc VC generator (/verif/govc)", "/verif/contracts/externals.vspec entries listed under assumptions"},
			"functions_under_contract": funcs,
			"discharged_by_backend":    solverCount,
			"solver_ms_total":          solverMs,
			"samples":                  samples,
			"not_proved":               notProved,
			"unsupported":              unsupported,
			"bounded":                  cfg.Bounded,
			"known_findings_hit":       knownHit,
			"outside":                  cfg.Outside,
			"integers":                 "mathematical Int with exact Go wrap-around (mod 2^N) on every arithmetic instruction and conversion",
			"contract_sources":         eng.specSrc,
			"structural_checks":        extraEvidence,
		},
		"assumptions": assumptions,
		"wall_s":      time.Since(t0).Seconds(),
		"violations":  len(violations),
	}
	os.MkdirAll(filepath.Join(outRoot, "evidence"), 0o755)
	if err := writeJSON(filepath.Join(outRoot, "evidence", cfg.ID+".json"), ev); err != nil {
		fmt.Fprintln(os.Stderr, "evidence:", err)
		return 2
	}
	fmt.Printf("property=%s tier=%s obligations=%d discharged=%d violations=%d known=%d not-proved=%d wall=%.1fs\n",
		cfg.ID, *tier, total, discharged, len(violations), len(knownHit), len(notProved), time.Since(t0).Seconds())
	if len(violations) > 0 {
		return 1
	}
	return 0
}

var mu sync.Mutex

func clip(s string, n int) string {
	if len(s) <= n {
		return s
	}
	return s[:n] + "..."
}

// cmdReplay re-runs a stored replay file against the current tree.
func cmdReplay(args []string) int {
	if len(args) < 1 {
		return 2
	}
	data, err := os.ReadFile(args[0])
	if err != nil {
		fmt.Fprintln(os.Stderr, err)
		return 2
	}
	var ri ReplayInfo
	if err := json.Unmarshal(data, &ri); err != nil {
		fmt.Fprintln(os.Stderr, err)
		return 2
	}
	fmt.Printf("obligation: %s\nsolver: %s %s\n", ri.Obligation, ri.Solver, ri.SolverSays)
	if ri.TestSource == "" {
		fmt.Println("no executable replay:", ri.Reason)
		fmt.Println(ri.SolverOut)
		return 1
	}
	ri.Reproduced = false
	runReplay(&ri, "", "")
	fmt.Println(ri.RunOutput)
	if ri.Reproduced {
		fmt.Printf("VIOLATION property=%s replay=%s\n", ri.Property, args[0])
		return 1
	}
	fmt.Println("not reproduced on the current tree")
	return 0
}

var _ = exec.Command

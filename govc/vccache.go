package main

import (
	"crypto/sha256"
	"encoding/json"
	"fmt"
	"os"
)

// VC cache for the corpus runners (selftest / musthold / stability: GOVC_SELFTEST=1). A run on the unchanged
// tree with -update-baseline records, per property and function under contract, a hash of everything that is
// sent to the solvers for that function (every context line, every obligation with its goal, every candidate
// invariant). When a corpus run - a scratch copy of the tree with one change applied - generates byte-identical
// verification conditions for a function, the recorded verdict (all obligations discharged) is reused instead of
// running the solvers again: same solver input, same answer. Functions the change reaches (directly, through
// inlining or through a callee's contract) get different conditions and are decided afresh. The registered checks
// never use the cache: on /repo's working tree every obligation is discharged on every run.

const vcCacheFile = "/verif/baseline/vc_hashes.json"

func loadVCCache() map[string]map[string]string {
	out := map[string]map[string]string{}
	if d, err := os.ReadFile(vcCacheFile); err == nil {
		json.Unmarshal(d, &out)
	}
	return out
}

func (u *Unit) vcHash() string {
	h := sha256.New()
	for _, l := range u.c.lines {
		h.Write([]byte(l))
		h.Write([]byte{'\n'})
	}
	for _, o := range u.obls {
		fmt.Fprintf(h, "O|%s|%s|%d|%v|%d|%s\n", o.Name, o.Kind, o.Prefix, o.Auto, o.CandID, o.Goal.S)
	}
	for _, cd := range u.cands {
		fmt.Fprintf(h, "C|%d|%s|%s|%v|%v\n", cd.ID, cd.Flag, cd.Text, cd.Auto, cd.Disabled)
	}
	for _, n := range u.unsupported {
		fmt.Fprintf(h, "U|%s\n", n)
	}
	return fmt.Sprintf("%x", h.Sum(nil)[:16])
}

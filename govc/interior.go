package main

import (
	"sort"
	"fmt"
	"go/token"
	"go/types"

	"golang.org/x/tools/go/ssa"
	"golang.org/x/tools/go/ssa/ssautil"
)

// Interior pointers stored in struct fields (e.g. `k.latest = &block.Header.Time`).
//
// Pointers are object identifiers in the heap model, so the address of a field cannot be stored as a
// value. The sound abstraction used instead: a struct field that receives an interior pointer anywhere
// in the loaded packages is "tainted"; a store of an interior pointer into it stores a fresh non-nil
// object; every load THROUGH a pointer read from a tainted field returns an arbitrary value of the
// pointee type (so whatever the real pointee holds is covered); and every other use of a pointer read
// from a tainted field (storing through it, passing it on, comparing it with anything but nil) is
// reported as unsupported where it occurs.

type interiorInfo struct {
	tainted map[string]bool           // typeName(struct) + "." + field
	badUse  map[ssa.Instruction]string // uses of a pointer read from a tainted field that are not modelled
}

func fieldKey(fa *ssa.FieldAddr) string {
	pt, ok := fa.X.Type().Underlying().(*types.Pointer)
	if !ok {
		return ""
	}
	stt, ok := pt.Elem().Underlying().(*types.Struct)
	if !ok {
		return ""
	}
	return typeName(pt.Elem()) + "." + stt.Field(fa.Field).Name()
}

func isInteriorAddr(v ssa.Value) bool {
	switch x := v.(type) {
	case *ssa.FieldAddr:
		return true
	case *ssa.IndexAddr:
		return true
	case *ssa.ChangeType:
		return isInteriorAddr(x.X)
	}
	return false
}

// loadOfTainted reports whether v is `*(&x.f)` for a tainted field f.
func (ii *interiorInfo) loadOfTainted(v ssa.Value) bool {
	if ii == nil {
		return false
	}
	un, ok := v.(*ssa.UnOp)
	if !ok || un.Op != token.MUL {
		return false
	}
	fa, ok := un.X.(*ssa.FieldAddr)
	return ok && ii.tainted[fieldKey(fa)]
}

func (eng *Engine) scanInterior() {
	ii := &interiorInfo{tainted: map[string]bool{}, badUse: map[ssa.Instruction]string{}}
	eng.interior = ii
	var fns []*ssa.Function
	for fn := range ssautil.AllFunctions(eng.prog) {
		if isRepoPkg(fnPkgPath(fn)) || fn.Parent() != nil && isRepoPkg(fnPkgPath(fn.Parent())) {
			fns = append(fns, fn)
		}
	}
	for _, fn := range fns {
		for _, b := range fn.Blocks {
			for _, ins := range b.Instrs {
				st, ok := ins.(*ssa.Store)
				if !ok || !isInteriorAddr(st.Val) {
					continue
				}
				if _, isPtr := st.Val.Type().Underlying().(*types.Pointer); !isPtr {
					continue
				}
				if fa, ok := st.Addr.(*ssa.FieldAddr); ok {
					if k := fieldKey(fa); k != "" {
						ii.tainted[k] = true
					}
				}
			}
		}
	}
	if len(ii.tainted) == 0 {
		return
	}
	for _, fn := range fns {
		for _, b := range fn.Blocks {
			for _, ins := range b.Instrs {
				v, ok := ins.(ssa.Value)
				if !ok || !ii.loadOfTainted(v) {
					continue
				}
				for _, r := range *v.Referrers() {
					switch x := r.(type) {
					case *ssa.DebugRef:
						continue
					case *ssa.UnOp:
						if x.Op == token.MUL {
							continue
						}
					case *ssa.BinOp:
						if x.Op == token.EQL || x.Op == token.NEQ {
							other := x.X
							if other == v {
								other = x.Y
							}
							if c, ok := other.(*ssa.Const); ok && c.IsNil() {
								continue
							}
						}
					}
					ii.badUse[r] = fmt.Sprintf("pointer read from field %s (which may hold an interior pointer) is used other than by loading through it or comparing it with nil", fieldKey(v.(*ssa.UnOp).X.(*ssa.FieldAddr)))
				}
			}
		}
	}
}

// Effectively constant package-level variables: a variable of basic type whose only store in the loaded
// program is `init` storing a constant (e.g. the event type strings in keyper/shutterevents/evtype) is read
// as that constant. Packages that are not loaded with bodies cannot be seen to assign it (A-globals).
func (eng *Engine) scanConstGlobals() {
	eng.constGlobals = map[*ssa.Global]*ssa.Const{}
	stores := map[*ssa.Global]int{}
	val := map[*ssa.Global]*ssa.Const{}
	escaped := map[*ssa.Global]bool{}
	for fn := range ssautil.AllFunctions(eng.prog) {
		for _, b := range fn.Blocks {
			for _, ins := range b.Instrs {
				if st, ok := ins.(*ssa.Store); ok {
					if g, ok := st.Addr.(*ssa.Global); ok {
						stores[g]++
						if c, ok := st.Val.(*ssa.Const); ok && fn.Name() == "init" && fn.Pkg == g.Pkg {
							val[g] = c
						}
						if g2, ok := st.Val.(*ssa.Global); ok {
							escaped[g2] = true
						}
						continue
					}
				}
				if un, ok := ins.(*ssa.UnOp); ok && un.Op == token.MUL {
					if _, ok := un.X.(*ssa.Global); ok {
						continue
					}
				}
				for _, op := range ins.Operands(nil) {
					if op == nil || *op == nil {
						continue
					}
					if g, ok := (*op).(*ssa.Global); ok {
						escaped[g] = true // address used other than by a direct load/store
					}
				}
			}
		}
	}
	for g, c := range val {
		if stores[g] != 1 || g.Pkg == nil || !isRepoPkg(g.Pkg.Pkg.Path()) {
			continue
		}
		if _, ok := g.Type().(*types.Pointer).Elem().Underlying().(*types.Basic); !ok {
			continue
		}
		if !escaped[g] {
			eng.constGlobals[g] = c
		}
	}
}

// assignGlobalIDs gives every package-level variable that a function of the repository mentions a fixed object id,
// in name order. (Ids used to be handed out on first use; with several functions verified in parallel the order
// - and with it the text of the verification conditions - depended on scheduling.)
func (eng *Engine) assignGlobalIDs() {
	seen := map[*ssa.Global]bool{}
	var gs []*ssa.Global
	for fn := range ssautil.AllFunctions(eng.prog) {
		pp := fnPkgPath(fn)
		if !isRepoPkg(pp) && !(fn.Parent() != nil && isRepoPkg(fnPkgPath(fn.Parent()))) {
			continue
		}
		for _, b := range fn.Blocks {
			for _, ins := range b.Instrs {
				for _, op := range ins.Operands(nil) {
					if op == nil || *op == nil {
						continue
					}
					if g, ok := (*op).(*ssa.Global); ok && !seen[g] {
						seen[g] = true
						gs = append(gs, g)
					}
				}
			}
		}
	}
	sort.Slice(gs, func(i, j int) bool { return gs[i].String() < gs[j].String() })
	for _, g := range gs {
		if _, ok := eng.globalIDs[g]; !ok {
			eng.globalIDs[g] = int64(len(eng.globalIDs) + 1)
		}
	}
}

package main

// Counterexample replay: a refuted obligation's model is turned into concrete Go inputs, a test is
// generated inside the package of the function and run against the real code with
// `go test -overlay` (nothing is written into /repo).

import (
	"bufio"
	"bytes"
	"encoding/json"
	"fmt"
	"go/types"
	"io"
	"math/big"
	"os"
	"os/exec"
	"path/filepath"
	"sort"
	"strings"
	"time"

	"golang.org/x/tools/go/ssa"
)

type ReplayInfo struct {
	Property    string            `json:"property"`
	Obligation  string            `json:"obligation"`
	Kind        string            `json:"kind"`
	Function    string            `json:"function"`
	Pos         string            `json:"pos"`
	SolverSays  string            `json:"solver_result"`
	Solver      string            `json:"solver"`
	SolverOut   string            `json:"solver_output"`
	ModelInputs map[string]string `json:"model_inputs,omitempty"`
	PkgDir      string            `json:"pkg_dir,omitempty"`
	TestSource  string            `json:"test_source,omitempty"`
	RunOutput   string            `json:"run_output,omitempty"`
	Reproduced  bool              `json:"reproduced"`
	Reason      string            `json:"reason,omitempty"`
	Expect      string            `json:"expect,omitempty"` // what counts as reproduced
	imports     map[string]string
	body        string
	pkgName     string
}

var errUnconstrained = fmt.Errorf("unconstrained in the model")

func sanitizeIdent(s string) string {
	var b strings.Builder
	for _, r := range s {
		if r >= 'a' && r <= 'z' || r >= 'A' && r <= 'Z' || r >= '0' && r <= '9' {
			b.WriteRune(r)
		} else {
			b.WriteByte('_')
		}
	}
	return b.String()
}

type z3sess struct {
	cmd *exec.Cmd
	in  io.WriteCloser
	out *bufio.Reader
}

func startZ3(script string, timeoutS int) (*z3sess, string, error) {
	cmd := exec.Command("z3-new", "-in", fmt.Sprintf("-T:%d", timeoutS))
	in, err := cmd.StdinPipe()
	if err != nil {
		return nil, "", err
	}
	outp, err := cmd.StdoutPipe()
	if err != nil {
		return nil, "", err
	}
	cmd.Stderr = cmd.Stdout
	if err := cmd.Start(); err != nil {
		return nil, "", err
	}
	s := &z3sess{cmd: cmd, in: in, out: bufio.NewReaderSize(outp, 1<<20)}
	io.WriteString(in, script)
	io.WriteString(in, "(check-sat)\n")
	line, err := s.out.ReadString('\n')
	if err != nil {
		s.close()
		return nil, "", err
	}
	return s, strings.TrimSpace(line), nil
}

func (s *z3sess) close() {
	s.in.Close()
	done := make(chan struct{})
	go func() { s.cmd.Wait(); close(done) }()
	select {
	case <-done:
	case <-time.After(2 * time.Second):
		s.cmd.Process.Kill()
	}
}

// value asks the model for the value of a term; returns the raw value text.
func (s *z3sess) value(term string) (string, error) {
	if _, err := io.WriteString(s.in, "(get-value ("+term+"))\n"); err != nil {
		return "", err
	}
	// read one balanced s-expression
	var b strings.Builder
	depth := 0
	started := false
	for {
		c, err := s.out.ReadByte()
		if err != nil {
			return "", err
		}
		b.WriteByte(c)
		if c == '(' {
			depth++
			started = true
		} else if c == ')' {
			depth--
		}
		if started && depth == 0 {
			break
		}
		if !started && c == '\n' && strings.TrimSpace(b.String()) != "" {
			return "", fmt.Errorf("z3: %s", strings.TrimSpace(b.String()))
		}
	}
	if strings.Contains(b.String(), "unknown constant") || strings.Contains(b.String(), "(error") {
		return "", errUnconstrained
	}
	m := parseGetValue("x\n" + b.String())
	for _, v := range m {
		return v, nil
	}
	return "", fmt.Errorf("z3: unparsable %q", b.String())
}

func (s *z3sess) intValue(t Term) (*big.Int, error) {
	v, err := s.value(t.S)
	if err == errUnconstrained {
		return big.NewInt(0), nil
	}
	if err != nil {
		return nil, err
	}
	n, ok := modelInt(v)
	if !ok {
		return nil, fmt.Errorf("not an integer: %s", v)
	}
	return n, nil
}

func (s *z3sess) boolValue(t Term) (bool, error) {
	v, err := s.value(t.S)
	if err == errUnconstrained {
		return false, nil
	}
	if err != nil {
		return false, err
	}
	return strings.TrimSpace(v) == "true", nil
}

// ---------------------------------------------------------------------------------------------

type replayBuilder struct {
	u       *Unit
	z       *z3sess
	pkg     *types.Package
	imports map[string]string // path -> alias
	decls   []string
	objs    map[string]string // "<type>@<id>" -> variable
	n       int
	inputs  map[string]string
	skipped []string
}

const maxReplayLen = 1 << 20

func (b *replayBuilder) qual(p *types.Package) string {
	if p == b.pkg {
		return ""
	}
	if a, ok := b.imports[p.Path()]; ok {
		return a
	}
	a := "zzp_" + sanitizeIdent(p.Path())
	b.imports[p.Path()] = a
	return a
}

func (b *replayBuilder) typeStr(t types.Type) string { return types.TypeString(t, b.qual) }

func (b *replayBuilder) fresh(prefix string) string {
	b.n++
	return fmt.Sprintf("%s%d", prefix, b.n)
}

func exportedOrLocal(f *types.Var, pkg *types.Package) bool {
	return f.Exported() || f.Pkg() == pkg
}

// expr builds a Go expression for the entry-state value v of type t.
func (b *replayBuilder) expr(v Value, t types.Type, depth int) (string, error) {
	u := b.u
	if depth > 12 {
		return "", fmt.Errorf("value too deep")
	}
	if n, ok := t.(*types.Named); ok {
		switch typeNameFull(n) {
		case "context.Context":
			b.qualPath("context")
			return b.imports["context"] + ".Background()", nil
		}
	}
	switch x := v.(type) {
	case Scalar:
		switch ut := t.Underlying().(type) {
		case *types.Basic:
			switch {
			case ut.Info()&types.IsBoolean != 0:
				bv, err := b.z.boolValue(x.T)
				if err != nil {
					return "", err
				}
				return fmt.Sprintf("%s(%v)", b.typeStr(t), bv), nil
			case ut.Info()&types.IsInteger != 0:
				n, err := b.z.intValue(x.T)
				if err != nil {
					return "", err
				}
				if bits, signed, ok := intBits(t); ok {
					// cells the model leaves unconstrained may carry any integer: bring it into the type
					m := new(big.Int).Mod(n, pow2(bits))
					if signed && m.Cmp(pow2(bits-1)) >= 0 {
						m.Sub(m, pow2(bits))
					}
					n = m
				}
				return fmt.Sprintf("%s(%s)", b.typeStr(t), n.String()), nil
			case ut.Info()&types.IsString != 0:
				ln, err := b.z.intValue(app(SInt, "strlen", x.T))
				if err != nil {
					return "", err
				}
				if !ln.IsInt64() || ln.Int64() > maxReplayLen {
					return "", fmt.Errorf("string of length %s", ln)
				}
				bs := make([]byte, ln.Int64())
				for i := range bs {
					c, err := b.z.intValue(app(SInt, "str_at", x.T, IntLit(int64(i))))
					if err != nil {
						return "", err
					}
					bs[i] = byte(c.Int64())
				}
				return fmt.Sprintf("%s(%q)", b.typeStr(t), string(bs)), nil
			}
		case *types.Array:
			// leaf fixed array of scalars
			n := ut.Len()
			var parts []string
			for i := int64(0); i < n; i++ {
				c, err := b.z.intValue(Select(x.T, IntLit(i)))
				if err != nil {
					return "", err
				}
				parts = append(parts, new(big.Int).Mod(c, big.NewInt(256)).String())
			}
			return fmt.Sprintf("%s{%s}", b.typeStr(t), strings.Join(parts, ",")), nil
		case *types.Map:
			ref, err := b.z.intValue(x.T)
			if err != nil {
				return "", err
			}
			if ref.Sign() == 0 {
				return "nil", nil
			}
			b.skipped = append(b.skipped, "map contents (empty map used)")
			return fmt.Sprintf("%s{}", b.typeStr(t)), nil
		case *types.Signature, *types.Chan:
			return "nil", nil
		}
		return "", fmt.Errorf("cannot build %s", typeName(t))
	case PtrV:
		id, err := b.z.intValue(x.Base)
		if err != nil {
			return "", err
		}
		if id.Sign() == 0 {
			return "nil", nil
		}
		pt, ok := t.Underlying().(*types.Pointer)
		if !ok {
			return "", fmt.Errorf("pointer value for non-pointer type %s", typeName(t))
		}
		key := typeNameFull(pt.Elem()) + "@" + id.String()
		if v, ok := b.objs[key]; ok {
			return v, nil
		}
		switch typeNameFull(pt.Elem()) {
		case "math/big.Int":
			comp := u.m.comp(u.entrySt, "G|bigval", ArrSort(SInt, SInt))
			val, err := b.z.intValue(Select(comp, x.Base))
			if err != nil {
				return "", err
			}
			b.qualPath("math/big")
			name := b.fresh("big")
			b.objs[key] = name
			b.decls = append(b.decls, fmt.Sprintf("%s, _ := new(%s.Int).SetString(%q, 10)", name, b.imports["math/big"], val.String()))
			return name, nil
		case "github.com/jackc/pgx/v4/pgxpool.Pool":
			return "nil", nil
		}
		name := b.fresh("obj")
		b.objs[key] = name
		elem := pt.Elem()
		if _, isStruct := elem.Underlying().(*types.Struct); !isStruct {
			val := u.loadNoAssume(u.entrySt, x)
			e, err := b.expr(val, elem, depth+1)
			if err != nil {
				return "", err
			}
			b.decls = append(b.decls, fmt.Sprintf("%s := new(%s)", name, b.typeStr(elem)), fmt.Sprintf("*%s = %s", name, e))
			return name, nil
		}
		b.decls = append(b.decls, fmt.Sprintf("%s := new(%s)", name, b.typeStr(elem)))
		st := elem.Underlying().(*types.Struct)
		for i := 0; i < st.NumFields(); i++ {
			f := st.Field(i)
			if !exportedOrLocal(f, b.pkg) {
				continue
			}
			q := x
			q.Path = append(append([]int{}, x.Path...), i)
			fv := u.loadNoAssume(u.entrySt, q)
			e, err := b.expr(fv, f.Type(), depth+1)
			if err != nil {
				b.skipped = append(b.skipped, fmt.Sprintf("%s.%s: %v", typeName(elem), f.Name(), err))
				continue
			}
			b.decls = append(b.decls, fmt.Sprintf("%s.%s = %s", name, f.Name(), e))
		}
		return name, nil
	case SliceV:
		arr, err := b.z.intValue(x.Arr)
		if err != nil {
			return "", err
		}
		if arr.Sign() == 0 {
			return "nil", nil
		}
		ln, err := b.z.intValue(x.Len)
		if err != nil {
			return "", err
		}
		if !ln.IsInt64() || ln.Int64() > maxReplayLen {
			return "", fmt.Errorf("slice of length %s is not allocatable in a replay", ln)
		}
		elem := t.Underlying().(*types.Slice).Elem()
		n := ln.Int64()
		if eb, ok := elem.Underlying().(*types.Basic); ok && eb.Kind() == types.Uint8 {
			bs := make([]string, n)
			comp := u.m.comp(u.entrySt, "E|uint8|", u.m.compSort(true, SInt))
			inner := Select(comp, x.Arr)
			for i := int64(0); i < n; i++ {
				c, err := b.z.intValue(Select(inner, ElemIdx(x.Off, IntLit(i))))
				if err != nil {
					return "", err
				}
				bs[i] = new(big.Int).Mod(c, big.NewInt(256)).String()
			}
			return fmt.Sprintf("%s{%s}", b.typeStr(t), strings.Join(bs, ",")), nil
		}
		if n > 512 {
			return "", fmt.Errorf("slice of %d non-byte elements", n)
		}
		var parts []string
		for i := int64(0); i < n; i++ {
			idx := ElemIdx(x.Off, IntLit(i))
			p := PtrV{Base: x.Arr, Obj: elem, Arr: true, Idx: &idx}
			ev := u.loadNoAssume(u.entrySt, p)
			e, err := b.expr(ev, elem, depth+1)
			if err != nil {
				return "", err
			}
			parts = append(parts, e)
		}
		return fmt.Sprintf("%s{%s}", b.typeStr(t), strings.Join(parts, ", ")), nil
	case StructV:
		st := t.Underlying().(*types.Struct)
		var parts []string
		for i := 0; i < st.NumFields(); i++ {
			f := st.Field(i)
			if !exportedOrLocal(f, b.pkg) {
				continue
			}
			e, err := b.expr(x.F[i], f.Type(), depth+1)
			if err != nil {
				b.skipped = append(b.skipped, fmt.Sprintf("%s.%s: %v", typeName(t), f.Name(), err))
				continue
			}
			parts = append(parts, f.Name()+": "+e)
		}
		return fmt.Sprintf("%s{%s}", b.typeStr(t), strings.Join(parts, ", ")), nil
	case IfaceV:
		tag, err := b.z.intValue(x.Tag)
		if err != nil {
			return "", err
		}
		if tag.Sign() == 0 {
			return "nil", nil
		}
		dt, ok := u.m.tidTyp[tag.Int64()]
		if !ok {
			return "", fmt.Errorf("interface value with unknown dynamic type id %s", tag)
		}
		inner := u.unboxNoAssume(x.Pay, dt)
		e, err := b.expr(inner, dt, depth+1)
		if err != nil {
			return "", err
		}
		return fmt.Sprintf("%s(%s)", b.typeStr(t), e), nil
	case FuncV:
		return "nil", nil
	}
	return "", fmt.Errorf("cannot build a %T", v)
}

func (b *replayBuilder) qualPath(path string) {
	if _, ok := b.imports[path]; !ok {
		b.imports[path] = "zzp_" + sanitizeIdent(path)
	}
}

// specToGo translates the executable subset of a contract expression to Go (no old(), no
// uninterpreted functions). Returns "" when the clause is not executable.
var replayPreds map[string]*PredDef

func specToGo(e SExpr, names map[string]string, consts map[string]*big.Int, n *int) (string, bool) {
	switch x := e.(type) {
	case SIntLit:
		return x.V.String(), true
	case SBoolLit:
		return fmt.Sprint(x.V), true
	case SNil:
		return "nil", true
	case SIdent:
		if g, ok := names[x.Name]; ok {
			return g, true
		}
		if c, ok := consts[x.Name]; ok {
			return c.String(), true
		}
		return "", false
	case SSel:
		if id, ok := x.X.(SIdent); ok {
			if _, bound := names[id.Name]; !bound {
				return "", false
			}
		}
		s, ok := specToGo(x.X, names, consts, n)
		return s + "." + x.Name, ok
	case SIndex:
		a, ok1 := specToGo(x.X, names, consts, n)
		i, ok2 := specToGo(x.I, names, consts, n)
		return a + "[zzint(" + i + ")]", ok1 && ok2
	case SQuant:
		// bounded universal quantifier: forall i :: lo <= i && i < hi [&& ...] ==> body
		if !x.Forall || len(x.Vars) != 1 {
			return "", false
		}
		imp, ok := x.Body.(SBinary)
		if !ok || imp.Op != "==>" {
			return "", false
		}
		v := x.Vars[0]
		var lo, hi string
		var conj func(e SExpr)
		inner := map[string]string{}
		for k, val := range names {
			inner[k] = val
		}
		*n++
		gv := fmt.Sprintf("zzq%d", *n)
		inner[v] = gv
		okAll := true
		var rest []string
		conj = func(e SExpr) {
			if b, ok := e.(SBinary); ok && b.Op == "&&" {
				conj(b.X)
				conj(b.Y)
				return
			}
			if b, ok := e.(SBinary); ok {
				if id, isID := b.Y.(SIdent); isID && id.Name == v && b.Op == "<=" && lo == "" {
					if g, ok := specToGo(b.X, names, consts, n); ok {
						lo = g
						return
					}
				}
				if id, isID := b.X.(SIdent); isID && id.Name == v && (b.Op == "<" || b.Op == "<=") && hi == "" {
					if g, ok := specToGo(b.Y, names, consts, n); ok {
						hi = g
						if b.Op == "<=" {
							hi = "zzadd(" + g + ", 1)"
						}
						return
					}
				}
			}
			g, ok := specToGo(e, inner, consts, n)
			if !ok {
				okAll = false
			}
			rest = append(rest, g)
		}
		conj(imp.X)
		if lo == "" || hi == "" || !okAll {
			return "", false
		}
		body, ok := specToGo(imp.Y, inner, consts, n)
		if !ok {
			return "", false
		}
		guard := "true"
		for _, r := range rest {
			guard += " && " + r
		}
		return fmt.Sprintf("func() bool { for %s := zzint(%s); %s < zzint(%s); %s++ { if (%s) && !(%s) { return false } }; return true }()", gv, lo, gv, hi, gv, guard, body), true
	case SUnary:
		a, ok := specToGo(x.X, names, consts, n)
		return "(" + x.Op + a + ")", ok
	case SBinary:
		a, ok1 := specToGo(x.X, names, consts, n)
		c, ok2 := specToGo(x.Y, names, consts, n)
		if !ok1 || !ok2 {
			return "", false
		}
		switch x.Op {
		case "==>":
			return "(!(" + a + ") || (" + c + "))", true
		case "<==>":
			return "((" + a + ") == (" + c + "))", true
		case "==":
			return "zzeq(" + a + ", " + c + ")", true
		case "!=":
			return "!zzeq(" + a + ", " + c + ")", true
		case "<", "<=", ">", ">=":
			return "(zzcmp(" + a + ", " + c + ") " + x.Op + " 0)", true
		case "+":
			return "zzadd(" + a + ", " + c + ")", true
		case "-":
			return "zzsub(" + a + ", " + c + ")", true
		case "*":
			return "zzmul(" + a + ", " + c + ")", true
		}
		return "(" + a + " " + x.Op + " " + c + ")", true
	case SCall:
		if pd, ok := replayPreds[x.Fn]; ok && len(pd.Params) == len(x.Args) && *n < 50 {
			*n++
			inner := map[string]string{}
			for k, v := range names {
				inner[k] = v
			}
			for i, p := range pd.Params {
				a, ok := specToGo(x.Args[i], names, consts, n)
				if !ok {
					return "", false
				}
				inner[p] = "(" + a + ")"
			}
			g, ok := specToGo(pd.Body, inner, consts, n)
			return "(" + g + ")", ok
		}
		if x.Fn == "ite" && len(x.Args) == 3 {
			c0, ok0 := specToGo(x.Args[0], names, consts, n)
			a0, ok1 := specToGo(x.Args[1], names, consts, n)
			b0, ok2 := specToGo(x.Args[2], names, consts, n)
			return "zzite(" + c0 + ", " + a0 + ", " + b0 + ")", ok0 && ok1 && ok2
		}
		switch x.Fn {
		case "len", "cap", "int", "int8", "int16", "int32", "int64", "uint", "uint8", "uint16", "uint32", "uint64", "byte":
			a, ok := specToGo(x.Args[0], names, consts, n)
			return x.Fn + "(" + a + ")", ok
		}
		return "", false
	}
	return "", false
}

func opFn(op string) string { return op }

// buildReplay constructs the test source for one refuted obligation.
func (u *Unit) buildReplay(o *Obligation, prop string, timeoutS int) *ReplayInfo {
	u.mu.Lock()
	defer u.mu.Unlock()
	ri := &ReplayInfo{Property: prop, Obligation: o.Name, Kind: o.Kind, Function: shortFn(u.fn.String()), Pos: o.Pos,
		SolverSays: o.Status, Solver: o.Solver, SolverOut: strings.TrimSpace(o.Output)}
	switch o.Kind {
	case "index", "slice", "nil-deref", "type-assert", "nil-map-write", "div-zero", "make-len", "unreachable-panic", "bounded-alloc", "pre":
		ri.Expect = "panic or fatal error"
	case "post":
		ri.Expect = "postcondition evaluates to false on the returned values"
	default:
		ri.Reason = "no executable oracle for obligations of kind " + o.Kind
		return ri
	}
	pkg := u.fn.Pkg
	if pkg == nil {
		ri.Reason = "function has no package (synthetic)"
		return ri
	}
	script := u.script(o, u.finalActive)
	// model-search heuristics (never part of a proof): prefer input slices with cap == len and small
	// lengths, so that the model is an input a real caller could pass and a test can allocate
	var h0, h1, h2 strings.Builder
	for _, sr := range u.shapes {
		if sr.line <= o.Prefix {
			fmt.Fprintf(&h2, "(assert (= %s %s))\n", sr.len.S, sr.cap.S)
			fmt.Fprintf(&h1, "(assert (<= %s 256))\n", sr.len.S)
			fmt.Fprintf(&h0, "(assert (<= %s 8))\n", sr.len.S)
		}
	}
	script += beIntGrounding(script)
	var z *z3sess
	var status string
	var err error
	for _, extra := range []string{h2.String() + h0.String(), h2.String() + h1.String(), h2.String(), ""} {
		z, status, err = startZ3(script+extra, timeoutS)
		if err != nil {
			ri.Reason = "model session: " + err.Error()
			return ri
		}
		if status == "sat" {
			break
		}
		if extra != "" {
			z.close()
		}
	}
	if status != "sat" {
		// no model within the limit: search a candidate in the relaxed context without quantified
		// assumptions (an over-approximation); only the replay on the real code can confirm it
		z.close()
		var relaxed strings.Builder
		for _, l := range strings.Split(script, "\n") {
			if strings.Contains(l, "(forall ") && strings.HasPrefix(l, "(assert ") && !strings.HasPrefix(l, "(assert (not ") {
				continue
			}
			relaxed.WriteString(l)
			relaxed.WriteByte('\n')
		}
		for _, extra := range []string{h2.String() + h0.String(), h2.String() + h1.String(), h2.String(), ""} {
			z, status, err = startZ3(relaxed.String()+extra, timeoutS)
			if err != nil {
				ri.Reason = "model session: " + err.Error()
				return ri
			}
			if status == "sat" {
				ri.Reason = strings.TrimSpace(ri.Reason + " candidate input from the relaxed context (quantified assumptions dropped);")
				break
			}
			if extra != "" {
				z.close()
			}
		}
	}
	defer z.close()
	if status != "sat" {
		// candidate models of an `unknown` answer are still worth trying: the replay decides
		if status != "unknown" {
			ri.Reason = "no model available (" + status + ")"
			return ri
		}
	}
	b := &replayBuilder{u: u, z: z, pkg: pkg.Pkg, imports: map[string]string{}, objs: map[string]string{}, inputs: map[string]string{}}
	var args []string
	for i, p := range u.fn.Params {
		e, err := b.expr(u.params[i], p.Type(), 0)
		if err != nil {
			ri.Reason = fmt.Sprintf("cannot build argument %s: %v", p.Name(), err)
			return ri
		}
		name := fmt.Sprintf("zzarg_%s", sanitize(p.Name()))
		b.decls = append(b.decls, fmt.Sprintf("%s := %s", name, e), "_ = "+name)
		args = append(args, name)
		b.inputs[p.Name()] = e
	}
	ri.ModelInputs = b.inputs
	// the call
	var call string
	sig := u.fn.Signature
	fname := u.fn.Name()
	if sig.Recv() != nil {
		call = fmt.Sprintf("%s.%s(%s)", args[0], fname, strings.Join(args[1:], ", "))
	} else if u.fn.Parent() != nil {
		ri.Reason = "anonymous function cannot be called from a test"
		return ri
	} else {
		call = fmt.Sprintf("%s(%s)", fname, strings.Join(args, ", "))
	}
	var rets []string
	for i := 0; i < sig.Results().Len(); i++ {
		rets = append(rets, fmt.Sprintf("zzret%d", i))
	}
	var src strings.Builder
	fmt.Fprintf(&src, "// replay of obligation %s\nfunc TestZZReplay(t *testing.T) {\n", o.Name)
	src.WriteString("\tdefer func() {\n\t\tif r := recover(); r != nil {\n\t\t\tfmt.Printf(\"REPLAY-PANIC: %v\\n\", r)\n\t\t}\n\t}()\n")
	for _, d := range b.decls {
		src.WriteString("\t" + d + "\n")
	}
	if len(rets) > 0 {
		fmt.Fprintf(&src, "\t%s := %s\n", strings.Join(rets, ", "), call)
		for _, r := range rets {
			fmt.Fprintf(&src, "\t_ = %s\n", r)
		}
	} else {
		fmt.Fprintf(&src, "\t%s\n", call)
	}
	src.WriteString("\tfmt.Println(\"REPLAY-RETURNED\")\n")
	if o.Kind == "post" && u.spec != nil {
		names := map[string]string{}
		for i, p := range u.fn.Params {
			names[p.Name()] = args[i]
		}
		for i := range rets {
			names[fmt.Sprintf("ret%d", i)] = rets[i]
			if nm := sig.Results().At(i).Name(); nm != "" {
				names[nm] = rets[i]
			}
			if i < len(u.spec.Results) {
				names[u.spec.Results[i]] = rets[i]
			}
		}
		if len(rets) == 1 {
			names["result"] = rets[0]
		}
		for _, en := range u.spec.Ensures {
			if en.Text != o.Text {
				continue
			}
			cnt := 0
			globalMu.Lock()
			replayPreds = u.eng.specs.Preds
			globalMu.Unlock()
			g, ok := specToGo(en.E, names, u.eng.specs.Consts, &cnt)
			if !ok {
				ri.Reason = "postcondition is not in the executable subset (uninterpreted functions, old() or arithmetic)"
				ri.TestSource = ""
				return ri
			}
			fmt.Fprintf(&src, "\tif !(%s) {\n\t\tfmt.Println(\"REPLAY-ORACLE-FAIL\")\n\t}\n", g)
		}
	}
	src.WriteString("}\n")
	ri.body = src.String()
	ri.imports = b.imports
	ri.pkgName = pkg.Pkg.Name()
	ri.TestSource = assembleTest(ri.pkgName, ri.imports, []string{ri.body})
	ri.PkgDir = strings.TrimPrefix(strings.TrimPrefix(pkg.Pkg.Path(), modPath), "/")
	if len(b.skipped) > 0 {
		ri.Reason = "not modelled in the replay input: " + strings.Join(b.skipped, "; ")
	}
	return ri
}

func assembleTest(pkgName string, imports map[string]string, bodies []string) string {
	var src strings.Builder
	fmt.Fprintf(&src, "package %s\n\nimport (\n\t\"fmt\"\n\t\"testing\"\n\tzzreflect \"reflect\"\n\tzzbig \"math/big\"\n", pkgName)
	var ips []string
	for p := range imports {
		ips = append(ips, p)
	}
	sort.Strings(ips)
	for _, p := range ips {
		fmt.Fprintf(&src, "\t%s %q\n", imports[p], p)
	}
	src.WriteString(")\n\nvar _ = fmt.Sprint\n\n")
	src.WriteString(replayHelpers)
	for _, b := range bodies {
		src.WriteString(b)
		src.WriteString("\n")
	}
	return src.String()
}

// runReplays runs a batch of replays, building one test binary per package.
func runReplays(ris []*ReplayInfo) {
	groups := map[string][]*ReplayInfo{}
	for _, ri := range ris {
		if ri.TestSource == "" {
			continue
		}
		groups[ri.PkgDir] = append(groups[ri.PkgDir], ri)
	}
	for _, g := range groups {
		if len(g) == 1 || g[0].body == "" {
			for _, ri := range g {
				runReplay(ri, "", "")
			}
			continue
		}
		imports := map[string]string{}
		var bodies []string
		for i, ri := range g {
			for k, v := range ri.imports {
				imports[k] = v
			}
			bodies = append(bodies, strings.Replace(ri.body, "func TestZZReplay(", fmt.Sprintf("func TestZZReplay_%d(", i), 1))
		}
		dir, err := os.MkdirTemp(workDir, "replaybatch-")
		if err != nil {
			continue
		}
		bin, berr := buildReplayBinary(dir, g[0].PkgDir, assembleTest(g[0].pkgName, imports, bodies))
		for i, ri := range g {
			if berr != "" {
				// fall back to individual builds so that one bad replay does not hide the others
				runReplay(ri, "", "")
				continue
			}
			runReplay(ri, bin, fmt.Sprintf("^TestZZReplay_%d$", i))
		}
		os.RemoveAll(dir)
	}
}

func buildReplayBinary(dir, pkgDir, source string) (string, string) {
	testFile := filepath.Join(dir, "zz_replay_test.go")
	os.WriteFile(testFile, []byte(source), 0o644)
	target := filepath.Join(repoRoot, pkgDir, "zz_replay_verif_test.go")
	ov, _ := json.Marshal(map[string]interface{}{"Replace": map[string]string{target: testFile}})
	ovFile := filepath.Join(dir, "overlay.json")
	os.WriteFile(ovFile, ov, 0o644)
	bin := filepath.Join(dir, "replay.test")
	env := append(os.Environ(), "GOFLAGS=-mod=mod", "GOPROXY=off")
	build := exec.Command("go", "test", "-c", "-overlay", ovFile, "-vet=off", "-tags", "verif", "-o", bin, "./"+pkgDir)
	build.Dir = repoRoot
	build.Env = env
	var bout bytes.Buffer
	build.Stdout, build.Stderr = &bout, &bout
	if err := build.Run(); err != nil {
		return "", "build failed: " + tail(bout.String(), 2000)
	}
	return bin, ""
}

// runReplay executes ri.TestSource against /repo via an overlay and decides whether the failure shows.
func runReplay(ri *ReplayInfo, bin, runPat string) {
	if ri.TestSource == "" {
		return
	}
	env := append(os.Environ(), "GOFLAGS=-mod=mod", "GOPROXY=off")
	if bin == "" {
		dir, err := os.MkdirTemp(workDir, "replay-")
		if err != nil {
			ri.Reason = err.Error()
			return
		}
		defer os.RemoveAll(dir)
		var berr string
		bin, berr = buildReplayBinary(dir, ri.PkgDir, ri.TestSource)
		if berr != "" {
			ri.RunOutput = berr
			ri.Reason = strings.TrimSpace(ri.Reason + " replay test does not build")
			return
		}
		runPat = "^TestZZReplay$"
	}
	run := exec.Command("bash", "-c", fmt.Sprintf("ulimit -v 8388608; exec %s -test.run '%s' -test.timeout 60s -test.count 1", bin, runPat))
	run.Dir = filepath.Join(repoRoot, ri.PkgDir)
	run.Env = env
	var rout bytes.Buffer
	run.Stdout, run.Stderr = &rout, &rout
	done := make(chan error, 1)
	run.Start()
	go func() { done <- run.Wait() }()
	var rerr error
	select {
	case rerr = <-done:
	case <-time.After(90 * time.Second):
		run.Process.Kill()
		rerr = fmt.Errorf("timeout")
	}
	out := rout.String()
	ri.RunOutput = tail(out, 3000)
	switch {
	case strings.Contains(out, "REPLAY-PANIC"):
		ri.Reproduced = ri.Expect == "panic or fatal error"
	case strings.Contains(out, "fatal error:") || strings.Contains(out, "panic:"):
		ri.Reproduced = ri.Expect == "panic or fatal error"
	case strings.Contains(out, "REPLAY-ORACLE-FAIL"):
		ri.Reproduced = true
	case rerr != nil && !strings.Contains(out, "REPLAY-RETURNED"):
		ri.Reason = strings.TrimSpace(ri.Reason + " replay ended abnormally: " + rerr.Error())
	}
	if !ri.Reproduced && ri.Reason == "" {
		ri.Reason = "the generated input did not make the real code fail (model may rely on an abstracted external)"
	}
}

func tail(s string, n int) string {
	if len(s) <= n {
		return s
	}
	return "..." + s[len(s)-n:]
}

var _ = ssa.NaiveForm

const replayHelpers = `
func zznum(v interface{}) (*zzbig.Int, bool) {
	if v == nil {
		return nil, false
	}
	if b, ok := v.(*zzbig.Int); ok {
		return b, true
	}
	rv := zzreflect.ValueOf(v)
	switch rv.Kind() {
	case zzreflect.Int, zzreflect.Int8, zzreflect.Int16, zzreflect.Int32, zzreflect.Int64:
		return zzbig.NewInt(rv.Int()), true
	case zzreflect.Uint, zzreflect.Uint8, zzreflect.Uint16, zzreflect.Uint32, zzreflect.Uint64:
		return new(zzbig.Int).SetUint64(rv.Uint()), true
	}
	return nil, false
}

func zzbigof(v interface{}) *zzbig.Int {
	if b, ok := v.(*zzbig.Int); ok {
		return b
	}
	if x, ok := zznum(v); ok {
		return x
	}
	return zzbig.NewInt(0)
}
func zzadd(a, b interface{}) *zzbig.Int { return new(zzbig.Int).Add(zzbigof(a), zzbigof(b)) }
func zzsub(a, b interface{}) *zzbig.Int { return new(zzbig.Int).Sub(zzbigof(a), zzbigof(b)) }
func zzmul(a, b interface{}) *zzbig.Int { return new(zzbig.Int).Mul(zzbigof(a), zzbigof(b)) }
func zzint(v interface{}) int            { return int(zzbigof(v).Int64()) }
func zzite(c bool, a, b interface{}) interface{} {
	if c {
		return a
	}
	return b
}

var _ = zzadd
var _ = zzsub
var _ = zzmul
var _ = zzint
var _ = zzite

func zzisnil(v interface{}) bool {
	if v == nil {
		return true
	}
	rv := zzreflect.ValueOf(v)
	switch rv.Kind() {
	case zzreflect.Ptr, zzreflect.Slice, zzreflect.Map, zzreflect.Interface, zzreflect.Func, zzreflect.Chan:
		return rv.IsNil()
	}
	return false
}

func zzeq(a, b interface{}) bool {
	if a == nil || b == nil {
		return zzisnil(a) && zzisnil(b)
	}
	if x, ok := zznum(a); ok {
		if y, ok := zznum(b); ok {
			return x.Cmp(y) == 0
		}
	}
	return zzreflect.DeepEqual(a, b)
}

func zzcmp(a, b interface{}) int {
	x, _ := zznum(a)
	y, _ := zznum(b)
	if x == nil || y == nil {
		return 0
	}
	return x.Cmp(y)
}

var _ = zzcmp
var _ = zzeq
`

// beIntGrounding adds, for the model search only, the true ground fact that ties be_int of a 32-byte
// (or shorter) content term to the bytes it abstracts, so that models agree with real big-endian
// decoding and replays follow the modelled path.
func beIntGrounding(script string) string {
	var out strings.Builder
	seen := map[string]bool{}
	idx := 0
	for {
		i := strings.Index(script[idx:], "(be_int (bytes_content ")
		if i < 0 {
			break
		}
		start := idx + i + len("(be_int ")
		// balanced s-expression starting at start
		depth := 0
		end := start
		for end < len(script) {
			if script[end] == '(' {
				depth++
			} else if script[end] == ')' {
				depth--
				if depth == 0 {
					end++
					break
				}
			}
			end++
		}
		term := script[start:end]
		idx = end
		if seen[term] || strings.Contains(term, "_q") {
			continue
		}
		seen[term] = true
		toks := sexpTokens(term)
		// (bytes_content A off len): parse the three arguments
		var args []string
		pos := 2
		var parse func() string
		parse = func() string {
			t := toks[pos]
			pos++
			if t != "(" {
				return t
			}
			var parts []string
			for pos < len(toks) && toks[pos] != ")" {
				parts = append(parts, parse())
			}
			pos++
			return "(" + strings.Join(parts, " ") + ")"
		}
		for k := 0; k < 3 && pos < len(toks); k++ {
			args = append(args, parse())
		}
		if len(args) != 3 {
			continue
		}
		var sum []string
		for k := 0; k < 32; k++ {
			w := new(big.Int).Lsh(big.NewInt(1), uint(8*(31-k)))
			sum = append(sum, fmt.Sprintf("(* %s (mod (select %s (sidx %s %d)) 256))", w.String(), args[0], args[1], k))
		}
		fmt.Fprintf(&out, "(assert (=> (= %s 32) (= (be_int %s) (+ %s))))\n", args[2], term, strings.Join(sum, " "))
	}
	return out.String()
}

package main

import (
	"fmt"
	"golang.org/x/tools/go/packages"
	"golang.org/x/tools/go/ssa"
	"golang.org/x/tools/go/ssa/ssautil"
)

func main() {
	cfg := &packages.Config{Mode: packages.LoadSyntax, Dir: "/repo/rolling-shutter", BuildFlags: []string{"-tags=verif"}}
	pkgs, err := packages.Load(cfg, "./medley")
	if err != nil { panic(err) }
	prog, spkgs := ssautil.Packages(pkgs, ssa.InstantiateGenerics|ssa.GlobalDebug)
	prog.Build()
	fmt.Println(len(spkgs))
}

package main

import (
	"encoding/json"
	"flag"
	"fmt"
	"os"
	"runtime/pprof"
	"sort"
	"strings"
)

func main() {
	if len(os.Args) < 2 {
		fmt.Fprintln(os.Stderr, "usage: govc unit|check ...")
		os.Exit(2)
	}
	initWorkDir()
	if pf := os.Getenv("GOVC_CPUPROFILE"); pf != "" {
		if f, err := os.Create(pf); err == nil {
			pprof.StartCPUProfile(f)
			defer pprof.StopCPUProfile()
		}
	}
	code := 2
	func() {
		defer cleanupWorkDir()
		switch os.Args[1] {
		case "unit":
			code = cmdUnit(os.Args[2:])
		case "check":
			code = cmdCheck(os.Args[2:])
		case "replay":
			code = cmdReplay(os.Args[2:])
		case "list":
			code = cmdList(os.Args[2:])
		default:
			fmt.Fprintln(os.Stderr, "unknown command", os.Args[1])
		}
	}()
	pprof.StopCPUProfile()
	os.Exit(code)
}

// govc unit -pkgs ./a,./b -fn 'pkgpath-suffix::Key' [-dump file] [-v]
var dumpN int

func cmdUnit(args []string) int {
	fs := flag.NewFlagSet("unit", flag.ExitOnError)
	pkgs := fs.String("pkgs", "", "comma separated package patterns (relative to the module)")
	fnName := fs.String("fn", "", "function key: <pkg path suffix>::<Key>")
	dump := fs.String("dump", "", "write the full SMT script of obligations matching -match to this dir")
	match := fs.String("match", "", "substring of obligation names to dump")
	timeout := fs.Int("t", 10, "solver timeout (s)")
	verbose := fs.Bool("v", false, "verbose")
	nospec := fs.Bool("nospec", false, "ignore the function's own contract (safety sweep)")
	fs.BoolVar(&debugPanics, "panic", false, "let engine panics through")
	fs.Parse(args)
	eng, err := LoadEngine(strings.Split(*pkgs, ","))
	if err != nil {
		fmt.Fprintln(os.Stderr, "load:", err)
		return 2
	}
	eng.timeoutS = *timeout
	var keys []string
	for k := range eng.funcs {
		if strings.HasSuffix(k, *fnName) {
			keys = append(keys, k)
		}
	}
	sort.Strings(keys)
	if len(keys) == 0 {
		fmt.Fprintln(os.Stderr, "no function matches", *fnName)
		return 2
	}
	rc := 0
	for _, k := range keys {
		for _, fn := range eng.funcs[k] {
			sp := eng.specs.Funcs[k]
			if *nospec {
				sp = nil
			}
			res := eng.VerifyFunction(fn, k, sp)
			fmt.Printf("== %s  (contract: %v, %d script lines, %d ms, vacuity: %s)\n", res.Func, sp != nil, res.ScriptLines, res.WallMs, res.Vacuity)
			for _, o := range res.Obligations {
				fmt.Printf("  %-10s %-9s %5dms %s  @%s\n", o.Status, o.Solver, o.Ms, o.Name, o.Pos)
				if o.Status != "discharged" {
					rc = 1
					if *verbose {
						fmt.Printf("      %s\n", o.Detail)
					}
				}
				if *dump != "" && (*match == "" || strings.Contains(o.Name, *match)) {
					os.MkdirAll(*dump, 0o755)
					nm := sanitize(o.Name)
					if len(nm) > 120 {
						nm = nm[:120]
					}
					dumpN++
					f := fmt.Sprintf("%s/%03d_%s.smt2", *dump, dumpN, nm)
					os.WriteFile(f, []byte(res.unit.script(o.obl, res.unit.finalActive)+"(check-sat)\n(get-model)\n"), 0o644)
				}
			}
			if *verbose {
				for _, n := range res.Notes {
					fmt.Println("  note:", n)
				}
				fmt.Println("  inlined:", res.Inlined)
				fmt.Println("  specs used:", res.SpecsUsed)
				fmt.Println("  kept auto invariants:", res.KeptAuto)
				fmt.Println("  dropped auto invariants:", len(res.DroppedAuto), res.DroppedAuto)
			}
			for _, n := range res.UnreachableReturns {
				fmt.Println("  UNREACHABLE return point (vacuous postconditions):", n)
			}
			for _, n := range res.Unsupported {
				fmt.Println("  UNSUPPORTED:", n)
			}
		}
	}
	return rc
}

func cmdList(args []string) int {
	fs := flag.NewFlagSet("list", flag.ExitOnError)
	pkgs := fs.String("pkgs", "", "comma separated package patterns")
	fs.Parse(args)
	eng, err := LoadEngine(strings.Split(*pkgs, ","))
	if err != nil {
		fmt.Fprintln(os.Stderr, "load:", err)
		return 2
	}
	var keys []string
	for k := range eng.funcs {
		keys = append(keys, k)
	}
	sort.Strings(keys)
	for _, k := range keys {
		fmt.Println(k, len(eng.funcs[k]))
	}
	return 0
}

func writeJSON(path string, v interface{}) error {
	data, err := json.MarshalIndent(v, "", " ")
	if err != nil {
		return err
	}
	tmp := path + ".tmp"
	if err := os.WriteFile(tmp, data, 0o644); err != nil {
		return err
	}
	return os.Rename(tmp, path)
}


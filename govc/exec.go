package main

// Symbolic execution of go/ssa functions into verification conditions.
// Forward execution over the acyclic CFG obtained by cutting loops at their headers, with
// ite-merging at joins (no path enumeration). See DESIGN.md section 3.

import (
	"fmt"
	"sync"
	"go/token"
	"go/types"
	"os"
	"sort"
	"strings"

	"golang.org/x/tools/go/ssa"
)

type Obligation struct {
	Name   string
	Kind   string
	Func   string // function containing the instruction
	Text   string
	Pos    string
	Prefix int
	Goal   Term // full goal: pc => cond
	Flags  []string
	// results
	Status  string
	Solver  string
	Ms      int64
	Output  string
	Model   map[string]string
	Auto    bool // auto-candidate invariant (may be dropped silently)
	LoopID  int
	CandID  int
	Replay  interface{}
	Blocker bool
}

type Candidate struct {
	ID       int
	Flag     string
	Text     string
	Auto     bool
	Disabled bool
	LoopID   int
	Eval     func(fr *Frame, st *State, phi map[*ssa.Phi]Value, hyp bool) (Term, error)
}

type axiomRange struct {
	from, to int
	syms     []string
}

type Unit struct {
	axioms []axiomRange
	antecedents []antecedentCheck
	aliases map[string]string // rename tolerance: contract name -> current local name
	allLocals map[string]string
	fatalEvents map[string]bool // bases of zerolog events started with Fatal() (calls.go fatalLog)
	localRoles map[string]string
	eng     *Engine
	c       *Ctx
	m       *Mem
	fn      *ssa.Function
	spec    *FuncSpec
	obls    []*Obligation
	cands   []*Candidate
	names   map[string]int
	discov  int // >0: discovery mode (no obligations recorded)
	entrySt *State
	params  []Value
	freeVars []Value
	loopCtr int
	inlined map[string]bool
	extUsed map[string]bool
	unsupported []string
	reach   []reachCheck
	axiomsDone bool
	finalActive map[string]bool
	shapes  []shapeRec
	iterOrder []string
	qctr    int
	placedInv map[string]bool
	unfolded map[string]bool
	forcedKey *Value
	assignSetDone bool
	assignSetVal  map[string]bool
	mu      sync.Mutex
}

type shapeRec struct {
	line     int
	len, cap Term
}

type reachCheck struct {
	Name   string
	Prefix int
	Pc     Term
}

// antecedentCheck: the antecedent of an `A ==> B` postcondition at one return point
type antecedentCheck struct {
	Clause string
	Prefix int
	Cond   Term // path condition && A
}

type retPoint struct {
	blk  *ssa.BasicBlock
	pc   Term
	st   *State
	vals []Value
}

type Frame struct {
	u      *Unit
	fn     *ssa.Function
	env    map[ssa.Value]Value
	parent *Frame
	depth  int
	exitSt map[*ssa.BasicBlock]*State
	exitPc map[*ssa.BasicBlock]Term
	brCond map[*ssa.BasicBlock]Term
	rets   []retPoint
	defers []*ssa.Defer
	deferSt []deferred
	loops  map[*ssa.BasicBlock]*loopInfo
	curBlk *ssa.BasicBlock
	spec   *FuncSpec
	callPath string
	freeVars []Value
	hdrEntryPhi map[*ssa.BasicBlock]map[*ssa.Phi]Value
	curArgTypes []types.Type
}

type deferred struct {
	call *ssa.CallCommon
	args []Value
	fnv  Value
	pc   Term
	pos  token.Pos
}

type loopInfo struct {
	header *ssa.BasicBlock
	blocks map[*ssa.BasicBlock]bool
	backs  []*ssa.BasicBlock
	id     int
	ord    int // ordinal of the loop within its function (source order of headers)
	cands  []*Candidate
}

func (u *Unit) unsupportedf(format string, args ...interface{}) {
	s := fmt.Sprintf(format, args...)
	for _, x := range u.unsupported {
		if x == s {
			return
		}
	}
	u.unsupported = append(u.unsupported, s)
	u.c.Note("unsupported: " + s)
}

func posString(prog *ssa.Program, p token.Pos) string {
	if !p.IsValid() {
		return ""
	}
	pp := prog.Fset.Position(p)
	return fmt.Sprintf("%s:%d", strings.TrimPrefix(pp.Filename, "/repo/rolling-shutter/"), pp.Line)
}

var srcCache = map[string][]string{}
var globalMu sync.Mutex

func sourceLine(prog *ssa.Program, p token.Pos) string {
	if !p.IsValid() {
		return ""
	}
	globalMu.Lock()
	defer globalMu.Unlock()
	pp := prog.Fset.Position(p)
	lines, ok := srcCache[pp.Filename]
	if !ok {
		data, err := os.ReadFile(pp.Filename)
		if err == nil {
			lines = strings.Split(string(data), "\n")
		}
		srcCache[pp.Filename] = lines
	}
	if pp.Line-1 < len(lines) && pp.Line >= 1 {
		return strings.Join(strings.Fields(lines[pp.Line-1]), " ")
	}
	return ""
}

// oblige records an obligation "pc => cond".
func (u *Unit) oblige(fr *Frame, kind string, pos token.Pos, text string, pc, cond Term) *Obligation {
	if u.discov > 0 {
		return nil
	}
	if kind == "nil-deref" && strings.HasPrefix(cond.S, "(not (= ") {
		// fresh allocations are non-nil by construction
		inner := strings.TrimSuffix(strings.TrimPrefix(cond.S, "(not (= "), " 0))")
		if u.m.nonNil[inner] {
			return nil
		}
	}
	if cond.S == "true" && (kind == "nil-deref" || kind == "index" || kind == "slice") {
		return nil
	}
	fnName := u.fn.String()
	if fr != nil {
		fnName = fr.fn.String()
	}
	if text == "" {
		text = sourceLine(u.eng.prog, pos)
	}
	base := fmt.Sprintf("%s/%s[%s]", shortFn(fnName), kind, text)
	u.names[base]++
	name := base
	if u.names[base] > 1 {
		name = fmt.Sprintf("%s#%d", base, u.names[base])
	}
	o := &Obligation{Name: name, Kind: kind, Func: fnName, Text: text, Pos: posString(u.eng.prog, pos), Prefix: u.c.Len(), Goal: Imp(pc, cond)}
	u.obls = append(u.obls, o)
	switch kind {
	case "index", "slice", "nil-deref", "type-assert", "nil-map-write", "div-zero", "make-len", "pre", "unreachable-panic":
		// execution continues past this point only if the check passed
		u.c.Assume(Imp(pc, cond))
	}
	return o
}

func shortFn(s string) string {
	s = strings.ReplaceAll(s, "github.com/shutter-network/rolling-shutter/rolling-shutter/", "")
	return s
}

// ---------------------------------------------------------------------------------------------

func (u *Unit) newFrame(fn *ssa.Function, parent *Frame) *Frame {
	fr := &Frame{u: u, fn: fn, env: map[ssa.Value]Value{}, parent: parent,
		exitSt: map[*ssa.BasicBlock]*State{}, exitPc: map[*ssa.BasicBlock]Term{}, brCond: map[*ssa.BasicBlock]Term{},
		hdrEntryPhi: map[*ssa.BasicBlock]map[*ssa.Phi]Value{}}
	if parent != nil {
		fr.depth = parent.depth + 1
	}
	fr.loops = findLoops(fn)
	return fr
}

func findLoops(fn *ssa.Function) map[*ssa.BasicBlock]*loopInfo {
	loops := map[*ssa.BasicBlock]*loopInfo{}
	for _, b := range fn.Blocks {
		for _, s := range b.Succs {
			if s.Dominates(b) { // back edge b -> s
				li := loops[s]
				if li == nil {
					li = &loopInfo{header: s, blocks: map[*ssa.BasicBlock]bool{s: true}}
					loops[s] = li
				}
				li.backs = append(li.backs, b)
				// natural loop: all blocks reaching b without passing s
				stack := []*ssa.BasicBlock{b}
				for len(stack) > 0 {
					x := stack[len(stack)-1]
					stack = stack[:len(stack)-1]
					if li.blocks[x] {
						continue
					}
					li.blocks[x] = true
					for _, p := range x.Preds {
						stack = append(stack, p)
					}
				}
			}
		}
	}
	// ordinals by header block index (source order)
	var hs []*ssa.BasicBlock
	for h := range loops {
		hs = append(hs, h)
	}
	sort.Slice(hs, func(i, j int) bool { return hs[i].Index < hs[j].Index })
	for i, h := range hs {
		loops[h].ord = i + 1
	}
	return loops
}

// rpo returns blocks in reverse postorder ignoring back edges.
func rpo(fn *ssa.Function) []*ssa.BasicBlock {
	seen := map[*ssa.BasicBlock]bool{}
	var order []*ssa.BasicBlock
	var dfs func(b *ssa.BasicBlock)
	dfs = func(b *ssa.BasicBlock) {
		seen[b] = true
		for _, s := range b.Succs {
			if !seen[s] && !s.Dominates(b) {
				dfs(s)
			} else if !seen[s] && s != b && !s.Dominates(b) {
				dfs(s)
			}
		}
		order = append(order, b)
	}
	if len(fn.Blocks) > 0 {
		dfs(fn.Blocks[0])
	}
	if fn.Recover != nil && !seen[fn.Recover] {
		// recover block not executed
	}
	for i, j := 0, len(order)-1; i < j; i, j = i+1, j-1 {
		order[i], order[j] = order[j], order[i]
	}
	return order
}

func isBackEdge(from, to *ssa.BasicBlock) bool { return to.Dominates(from) }

// edgeCond is the condition under which control goes from p to b (excluding p's own pc).
func (fr *Frame) edgeCond(p, b *ssa.BasicBlock) Term {
	if len(p.Instrs) == 0 {
		return TTrue
	}
	if _, ok := p.Instrs[len(p.Instrs)-1].(*ssa.If); ok {
		c := fr.brCond[p]
		if p.Succs[0] == b && p.Succs[1] == b {
			return TTrue
		}
		if p.Succs[0] == b {
			return c
		}
		return Not(c)
	}
	return TTrue
}

// run executes the blocks (in RPO) of fr.fn that are in `only` (nil = all), starting from entry
// with the given state. If entry is a loop header it is treated as a plain block when
// entryIsPlain is true (loop discovery).
func (fr *Frame) run(only map[*ssa.BasicBlock]bool, entry *ssa.BasicBlock, st0 *State, pc0 Term, entryPhi map[*ssa.Phi]Value, entryIsPlain bool) {
	u := fr.u
	for _, b := range rpo(fr.fn) {
		if only != nil && !only[b] {
			continue
		}
		var st *State
		var pc Term
		var predList []*ssa.BasicBlock
		var conds []Term
		if b == entry {
			st, pc = st0.clone(), pc0
		} else {
			var sts []*State
			for _, p := range b.Preds {
				if isBackEdge(p, b) {
					continue
				}
				if only != nil && !only[p] {
					continue
				}
				ps, ok := fr.exitSt[p]
				if !ok {
					continue
				}
				c := And(fr.exitPc[p], fr.edgeCond(p, b))
				if c.S == "false" {
					continue
				}
				predList = append(predList, p)
				sts = append(sts, ps)
				conds = append(conds, u.c.Def("edge", c))
			}
			if len(sts) == 0 {
				continue // unreachable
			}
			st = u.m.mergeStates(sts, conds)
			pc = u.c.Def("pc", Or(conds...))
		}
		fr.curBlk = b
		// phi values from forward predecessors
		phiVals := map[*ssa.Phi]Value{}
		for _, ins := range b.Instrs {
			phi, ok := ins.(*ssa.Phi)
			if !ok {
				break
			}
			if b == entry {
				if entryPhi != nil {
					if v, ok := entryPhi[phi]; ok {
						phiVals[phi] = v
					}
				}
				continue
			}
			var cur Value
			have := false
			for i := len(predList) - 1; i >= 0; i-- {
				p := predList[i]
				idx := predIndex(b, p)
				v := fr.val(phi.Edges[idx])
				if !have {
					cur, have = v, true
				} else {
					cur, _ = u.m.mergeValues(conds[i], v, cur, phi.Type())
				}
			}
			if have {
				phiVals[phi] = cur
			}
		}
		li := fr.loops[b]
		if li != nil && !(b == entry && entryIsPlain) {
			st, pc = fr.cutLoop(li, st, pc, phiVals)
		} else {
			for phi, v := range phiVals {
				fr.env[phi] = v
			}
		}
		// instructions
		alive := true
		for _, ins := range b.Instrs {
			if _, ok := ins.(*ssa.Phi); ok {
				continue
			}
			if !fr.step(ins, st, pc) {
				alive = false
				break
			}
		}
		if alive {
			fr.exitSt[b] = st
			fr.exitPc[b] = pc
			// back edges out of b: invariant preservation
			for _, s := range b.Succs {
				if isBackEdge(b, s) && (only == nil || only[s]) {
					if lj := fr.loops[s]; lj != nil && !(s == entry && entryIsPlain) {
						fr.checkBackEdge(lj, b, st, And(pc, fr.edgeCond(b, s)))
					}
				}
			}
		}
	}
}

func predIndex(b, p *ssa.BasicBlock) int {
	for i, x := range b.Preds {
		if x == p {
			return i
		}
	}
	return -1
}

// cutLoop implements the loop cut at a header: check candidates on entry, havoc, assume.
func (fr *Frame) cutLoop(li *loopInfo, st *State, pc Term, phiEntry map[*ssa.Phi]Value) (*State, Term) {
	u := fr.u
	if li.id == 0 {
		u.loopCtr++
		li.id = u.loopCtr
	}
	fr.hdrEntryPhi[li.header] = phiEntry
	// 1. discover what the loop modifies
	snap := u.snapshot()
	snapHeap0 := snap.heap0
	writeMark := len(u.m.writes)
	u.discov++
	sub := fr.cloneForDiscovery()
	// loop-carried variables get fresh values in the discovery run, so that a write through a
	// loop-carried pointer is not mistaken for a write to the entry object only
	discPhi := map[*ssa.Phi]Value{}
	for _, ins := range li.header.Instrs {
		phi, ok := ins.(*ssa.Phi)
		if !ok {
			break
		}
		discPhi[phi] = u.m.FreshValue(st, "disc_"+phi.Name(), phi.Type())
	}
	sub.run(li.blocks, li.header, st, pc, discPhi, true)
	modHeap := map[string]bool{}
	modGhost := map[string]bool{}
	allocChanged := false
	for b := range li.blocks {
		es, ok := sub.exitSt[b]
		if !ok {
			continue
		}
		for k, v := range es.heap {
			old, ok := st.heap[k]
			if !ok {
				old, ok = snapHeap0[k]
			}
			if !ok || old.S != v.S {
				modHeap[k] = true
			}
		}
		for k, v := range es.ghost {
			if old, ok := st.ghost[k]; !ok || old.S != v.S {
				modGhost[k] = true
			}
		}
		if es.alloc.S != st.alloc.S {
			allocChanged = true
		}
	}
	modSorts := map[string]Sort{}
	for k := range modHeap {
		for b := range li.blocks {
			if es, ok := sub.exitSt[b]; ok {
				if v, ok := es.heap[k]; ok {
					modSorts[k] = v.Sort
				}
			}
		}
	}
	ghostSorts := map[string]Sort{}
	for k := range modGhost {
		for b := range li.blocks {
			if es, ok := sub.exitSt[b]; ok {
				if v, ok := es.ghost[k]; ok {
					ghostSorts[k] = v.Sort
				}
			}
		}
	}
	// components whose only writes inside the loop hit objects allocated inside the loop keep their
	// contents on all pre-existing objects (frame)
	framed := map[string]bool{}
	frameExcept := map[string]map[string]bool{} // pre-existing objects written in the loop (excluded from the frame)
	for k := range modHeap {
		framed[k] = true
	}
	for _, w := range u.m.writes[writeMark:] {
		if !framed[w.comp] {
			continue
		}
		if w.base == "" {
			framed[w.comp] = false
			continue
		}
		if u.m.nonNil[w.base] && symIndex(w.base) > snap.n {
			continue // object allocated inside the loop
		}
		// a base computed before the loop (its defining symbols all predate the snapshot) is loop-invariant
		if maxSymIndex(w.base) <= snap.n {
			if frameExcept[w.comp] == nil {
				frameExcept[w.comp] = map[string]bool{}
			}
			frameExcept[w.comp][w.base] = true
			if len(frameExcept[w.comp]) > 4 {
				framed[w.comp] = false
			}
			continue
		}
		framed[w.comp] = false
	}
	u.m.writes = u.m.writes[:writeMark]
	u.discov--
	u.restore(snap)

	// 2. candidates (built once per loop, on first real visit)
	if li.cands == nil && u.discov == 0 {
		li.cands = fr.buildCandidates(li, phiEntry)
	}
	// 3. inv-init obligations under entry state
	if u.discov == 0 {
		for _, cd := range li.cands {
			t, err := cd.Eval(fr, st, phiEntry, false)
			if err != nil {
				if !cd.Auto {
					u.unsupportedf("invariant %q at loop %d of %s: %v", cd.Text, li.id, fr.fn.Name(), err)
				}
				cd.Disabled = true
				continue
			}
			o := u.oblige(fr, "inv-init", li.header.Instrs[0].Pos(), cd.Text, pc, t)
			if o != nil {
				o.Auto, o.LoopID, o.CandID = cd.Auto, li.id, cd.ID
			}
		}
	}
	// 4. havoc
	nst := st.clone()
	var hvRefs []string
	var hk []string
	for k := range modHeap {
		hk = append(hk, k)
	}
	sort.Strings(hk)
	for _, k := range hk {
		if _, ok := u.m.heap0[k]; !ok {
			// component first touched inside the loop: create its initial constant now
			u.m.comp(nst, k, modSorts[k])
		}
		nst.heap[k] = u.c.Fresh("hv_"+k, modSorts[k])
		hvRefs = append(hvRefs, k)
		if framed[k] && strings.HasPrefix(string(modSorts[k]), "(Array Int ") {
			oldc := u.m.comp(st, k, modSorts[k])
			guard := fmt.Sprintf("(< r %s)", st.alloc.S)
			var ex []string
			for b := range frameExcept[k] {
				ex = append(ex, b)
			}
			sort.Strings(ex)
			for _, b := range ex {
				guard = fmt.Sprintf("(and %s (not (= r %s)))", guard, b)
			}
			u.c.Raw(fmt.Sprintf("(assert (forall ((r Int)) (! (=> %s (= (select %s r) (select %s r))) :pattern ((select %s r)))))",
				guard, nst.heap[k].S, oldc.S, nst.heap[k].S))
		}
	}
	hk = hk[:0]
	for k := range modGhost {
		hk = append(hk, k)
	}
	sort.Strings(hk)
	for _, k := range hk {
		nst.ghost[k] = u.c.Fresh("hv_"+k, ghostSorts[k])
		// the visited set of a map iteration is finite (it grows by one key per iteration)
		if strings.HasPrefix(k, "iter|") && ghostSorts[k] == ArrSort(SInt, SBool) {
			if uf, ok := u.eng.specs.UFns["finiteSet"]; ok {
				u.c.DeclFun(uf.Name, uf.Args, uf.Ret)
				// like an axiom: only put into queries that count (cardEq/setCard), and it does not make the
				// finite-set axioms relevant by itself
				from := u.c.Len()
				u.c.Assume(app(SBool, "finiteSet", nst.ghost[k]))
				u.axioms = append(u.axioms, axiomRange{from: from, to: u.c.Len(), syms: []string{"(cardEq ", "(setCard "}})
			}
		}
	}
	if allocChanged {
		na := u.c.Fresh("alloc", SInt)
		u.c.Assume(Ge(na, st.alloc))
		nst.alloc = na
	}
	for _, k := range hvRefs {
		if u.m.refKind[k] {
			u.m.refAxiom(nst.heap[k], nst.alloc)
		}
	}
	for _, ins := range li.header.Instrs {
		phi, ok := ins.(*ssa.Phi)
		if !ok {
			break
		}
		name := phi.Comment
		if name == "" {
			name = phi.Name()
		}
		fr.env[phi] = u.m.FreshValue(nst, "loop_"+name, phi.Type())
	}
	// 5. assume candidates
	if u.discov == 0 {
		for _, cd := range li.cands {
			if cd.Disabled {
				continue
			}
			t, err := cd.Eval(fr, nst, nil, true)
			if err != nil {
				cd.Disabled = true
				continue
			}
			u.c.Assume(Imp(Term{cd.Flag, SBool}, Imp(pc, t)))
		}
	}
	if u.discov == 0 && fr.parent == nil && u.spec != nil && u.spec.Opts["order-indep"] == "check" {
		fr.orderIndependence(li, nst, pc)
	}
	return nst, pc
}

// orderIndependence generates, for a range loop over a map, the obligation that two iterations
// commute: from an arbitrary loop state (the invariants hold), running the body for two distinct
// unvisited keys k1, k2 in either order never leaves the loop early and ends in the same state. Together
// with the fact that every key is visited exactly once this makes the loop's effect independent of Go's
// randomised map iteration order (DESIGN.md section 3.6).
func (fr *Frame) orderIndependence(li *loopInfo, st *State, pc Term) {
	u := fr.u
	// find the Next instruction of this loop's map iteration
	var next *ssa.Next
	for _, ins := range li.header.Instrs {
		if n, ok := ins.(*ssa.Next); ok && !n.IsString {
			next = n
		}
	}
	if next == nil {
		return
	}
	it, ok := fr.val(next.Iter).(IterV)
	if !ok || it.Kind != "map" {
		return
	}
	mt := it.T.(*types.Map)
	k1 := u.m.FreshValue(st, "oi_k1", mt.Key())
	k2 := u.m.FreshValue(st, "oi_k2", mt.Key())
	t1, t2 := u.mapKeyTerm(mt, k1), u.mapKeyTerm(mt, k2)
	dom := u.mapDom(st, mt, it.M)
	visited := st.ghost[it.Key]
	premise := And(pc, Ne(it.M, IntLit(0)), Ne(t1, t2), Select(dom, t1), Select(dom, t2), Not(Select(visited, t1)), Not(Select(visited, t2)))
	phis := map[*ssa.Phi]Value{}
	for _, ins := range li.header.Instrs {
		if p, ok := ins.(*ssa.Phi); ok {
			phis[p] = fr.env[p]
		}
	}
	type bodyRes struct {
		st   *State
		phis map[*ssa.Phi]Value
		cont Term
	}
	runBody := func(s0 *State, p0 map[*ssa.Phi]Value, key Value, pc0 Term) *bodyRes {
		sub := fr.cloneForDiscovery()
		u.forcedKey = &key
		u.discov++ // obligations inside the body are generated by the normal run, not here
		sub.run(li.blocks, li.header, s0, pc0, p0, true)
		u.discov--
		u.forcedKey = nil
		var sts []*State
		var conds []Term
		var srcs []*ssa.BasicBlock
		for _, b := range li.backs {
			es, ok := sub.exitSt[b]
			if !ok {
				continue
			}
			sts = append(sts, es)
			conds = append(conds, u.c.Def("oi_back", And(sub.exitPc[b], sub.edgeCond(b, li.header))))
			srcs = append(srcs, b)
		}
		if len(sts) == 0 {
			return nil
		}
		res := &bodyRes{st: u.m.mergeStates(sts, conds), phis: map[*ssa.Phi]Value{}, cont: u.c.Def("oi_cont", Or(conds...))}
		for p := range p0 {
			var cur Value
			for i := len(srcs) - 1; i >= 0; i-- {
				v := sub.val(p.Edges[predIndex(li.header, srcs[i])])
				if cur == nil {
					cur = v
				} else {
					cur, _ = u.m.mergeValues(conds[i], v, cur, p.Type())
				}
			}
			res.phis[p] = cur
		}
		return res
	}
	a1 := runBody(st, phis, k1, premise)
	b1 := runBody(st, phis, k2, premise)
	if a1 == nil || b1 == nil {
		return
	}
	a2 := runBody(a1.st, a1.phis, k2, And(premise, a1.cont))
	b2 := runBody(b1.st, b1.phis, k1, And(premise, b1.cont))
	if a2 == nil || b2 == nil {
		return
	}
	pos := li.header.Instrs[0].Pos()
	if !pos.IsValid() {
		pos = next.Pos()
	}
	u.oblige(fr, "order-indep", pos, "no iteration leaves the loop early (the exit would depend on the iteration order)", premise,
		And(a1.cont, b1.cont, Imp(a1.cont, a2.cont), Imp(b1.cont, b2.cont)))
	var eqs []Term
	keys := map[string]bool{}
	for k := range a2.st.heap {
		keys[k] = true
	}
	for k := range b2.st.heap {
		keys[k] = true
	}
	var ks []string
	for k := range keys {
		ks = append(ks, k)
	}
	sort.Strings(ks)
	for _, k := range ks {
		x, okx := a2.st.heap[k]
		y, oky := b2.st.heap[k]
		if okx && oky && x.S != y.S {
			eqs = append(eqs, Eq(x, y))
		}
	}
	for p := range phis {
		ta := u.m.flatten(p.Type(), a2.phis[p])
		tb := u.m.flatten(p.Type(), b2.phis[p])
		for i := range ta {
			eqs = append(eqs, Eq(ta[i], tb[i]))
		}
	}
	u.oblige(fr, "order-indep", pos, "two iterations commute: the state after k1;k2 equals the state after k2;k1", And(premise, a1.cont, a2.cont, b1.cont, b2.cont), And(eqs...))
}

func (fr *Frame) checkBackEdge(li *loopInfo, from *ssa.BasicBlock, st *State, pc Term) {
	u := fr.u
	if u.discov > 0 {
		return
	}
	idx := predIndex(li.header, from)
	phi := map[*ssa.Phi]Value{}
	for _, ins := range li.header.Instrs {
		p, ok := ins.(*ssa.Phi)
		if !ok {
			break
		}
		phi[p] = fr.val(p.Edges[idx])
	}
	for _, cd := range li.cands {
		if cd.Disabled {
			continue
		}
		t, err := cd.Eval(fr, st, phi, false)
		if err != nil {
			if !cd.Auto {
				u.unsupportedf("invariant %q (step) at loop %d of %s: %v", cd.Text, li.id, fr.fn.Name(), err)
			}
			continue
		}
		o := u.oblige(fr, "inv-step", li.header.Instrs[0].Pos(), cd.Text, pc, t)
		if o != nil {
			o.Auto, o.LoopID, o.CandID = cd.Auto, li.id, cd.ID
		}
	}
}

func (fr *Frame) cloneForDiscovery() *Frame {
	n := &Frame{u: fr.u, fn: fr.fn, env: make(map[ssa.Value]Value, len(fr.env)), parent: fr.parent, depth: fr.depth,
		exitSt: map[*ssa.BasicBlock]*State{}, exitPc: map[*ssa.BasicBlock]Term{}, brCond: map[*ssa.BasicBlock]Term{},
		loops: map[*ssa.BasicBlock]*loopInfo{}, spec: fr.spec, callPath: fr.callPath, freeVars: fr.freeVars,
		hdrEntryPhi: map[*ssa.BasicBlock]map[*ssa.Phi]Value{}}
	for k, v := range fr.env {
		n.env[k] = v
	}
	// fresh loopInfo copies so candidate lists/ids of the real run are not disturbed
	for h, li := range fr.loops {
		n.loops[h] = &loopInfo{header: li.header, blocks: li.blocks, backs: li.backs, id: li.id, ord: li.ord, cands: []*Candidate{}}
	}
	return n
}

type unitSnap struct {
	lines, n, notes int
	funs, sorts     map[string]bool
	strLits         map[string]Term
	heap0           map[string]Term
	tids            map[string]int64
	obls, cands     int
	loopCtr         int
	unsup           int
}

func (u *Unit) snapshot() unitSnap {
	s := unitSnap{lines: len(u.c.lines), n: u.c.n, notes: len(u.c.notes), obls: len(u.obls), cands: len(u.cands), loopCtr: u.loopCtr, unsup: len(u.unsupported)}
	s.funs = map[string]bool{}
	for k, v := range u.c.funs {
		s.funs[k] = v
	}
	s.sorts = map[string]bool{}
	for k, v := range u.c.sorts {
		s.sorts[k] = v
	}
	s.strLits = map[string]Term{}
	for k, v := range u.c.strLits {
		s.strLits[k] = v
	}
	s.heap0 = map[string]Term{}
	for k, v := range u.m.heap0 {
		s.heap0[k] = v
	}
	s.tids = map[string]int64{}
	for k, v := range u.m.tids {
		s.tids[k] = v
	}
	return s
}

func (u *Unit) restore(s unitSnap) {
	u.c.lines = u.c.lines[:s.lines]
	u.c.n = s.n
	u.c.funs, u.c.sorts, u.c.strLits = s.funs, s.sorts, s.strLits
	u.m.heap0 = s.heap0
	u.m.tids = s.tids
	u.obls = u.obls[:s.obls]
	u.cands = u.cands[:s.cands]
	u.loopCtr = s.loopCtr
	// keep notes and unsupported (they are informative and idempotent)
}

// val returns the symbolic value of an SSA value in this frame.
func (fr *Frame) val(v ssa.Value) Value {
	if x, ok := fr.env[v]; ok {
		return x
	}
	u := fr.u
	switch x := v.(type) {
	case *ssa.Const:
		return u.constValue(x)
	case *ssa.Function:
		return FuncV{Fn: x}
	case *ssa.Global:
		return u.globalPtr(x)
	case *ssa.Builtin:
		return FuncV{Fn: x}
	case *ssa.FreeVar:
		for i, fv := range fr.fn.FreeVars {
			if fv == x && i < len(fr.freeVars) {
				return fr.freeVars[i]
			}
		}
	case *ssa.Parameter:
	}
	// value not computed (e.g. defined in a skipped block): fresh
	st := &State{heap: map[string]Term{}, alloc: u.entrySt.alloc, ghost: map[string]Term{}}
	nv := u.m.FreshValue(st, "undef_"+v.Name(), v.Type())
	fr.env[v] = nv
	return nv
}

func (u *Unit) constValue(c *ssa.Const) Value {
	t := c.Type()
	if c.Value == nil {
		return u.m.ZeroValue(t)
	}
	switch b := t.Underlying().(type) {
	case *types.Basic:
		switch {
		case b.Info()&types.IsBoolean != 0:
			if c.Value.String() == "true" {
				return Scalar{TTrue}
			}
			return Scalar{TFalse}
		case b.Info()&types.IsInteger != 0:
			n, ok := new(bigInt).SetString(c.Value.ExactString(), 10)
			if !ok {
				return Scalar{u.c.Fresh("const", SInt)}
			}
			return Scalar{BigLit(n)}
		case b.Info()&types.IsString != 0:
			s := constantStringVal(c)
			return Scalar{u.c.StrLit(s)}
		case b.Info()&types.IsFloat != 0:
			return Scalar{u.c.Fresh("floatconst", Sort("Float"))}
		}
	}
	return u.m.ZeroValue(t)
}

// globalPtr: a package-level variable is an object with a fixed id per global.
func (u *Unit) globalPtr(g *ssa.Global) Value {
	name := "glob_" + g.String()
	globalMu.Lock()
	id, ok := u.eng.globalIDs[g]
	if !ok {
		id = int64(len(u.eng.globalIDs) + 1)
		u.eng.globalIDs[g] = id
	}
	globalMu.Unlock()
	_ = name
	elem := g.Type().(*types.Pointer).Elem()
	// globals live at ids 1..K (below every allocation: alloc0 > K is assumed at unit start)
	p := u.m.ptrFromTerm(IntLit(id), elem)
	if !p.Arr {
		// distinguish globals by giving each its own pseudo object type when scalar
		p.Obj = elem
	}
	return p
}

// symIndex extracts N from a generated symbol name "prefix!N" (0 if none).
func symIndex(s string) int {
	i := strings.LastIndexByte(s, '!')
	if i < 0 {
		return 0
	}
	n := 0
	for _, c := range s[i+1:] {
		if c < '0' || c > '9' {
			return 0
		}
		n = n*10 + int(c-'0')
	}
	return n
}

// maxSymIndex is the largest generated-symbol index occurring in a term.
func maxSymIndex(s string) int {
	max := 0
	for i := 0; i < len(s); i++ {
		if s[i] == '!' {
			n := 0
			j := i + 1
			for j < len(s) && s[j] >= '0' && s[j] <= '9' {
				n = n*10 + int(s[j]-'0')
				j++
			}
			if n > max {
				max = n
			}
		}
	}
	return max
}

package main

import (
	"fmt"
	"go/ast"
	"go/constant"
	"go/types"
	"os"
	"path/filepath"
	"sort"
	"strings"

	"golang.org/x/tools/go/packages"
	"golang.org/x/tools/go/ssa"
	"golang.org/x/tools/go/ssa/ssautil"
)

// repoRoot is the tree that is verified: /repo's working tree, or (selftest only) a scratch copy named by GOVC_REPO.
var repoRoot = envOr("GOVC_REPO", "/repo/rolling-shutter")

// outRoot receives evidence and replay files (GOVC_OUT is set by the selftest so that runs on mutated scratch
// copies never overwrite the evidence of the real tree).
var outRoot = envOr("GOVC_OUT", "/verif")

func envOr(k, d string) string {
	if v := os.Getenv(k); v != "" {
		return v
	}
	return d
}
const modPath = "github.com/shutter-network/rolling-shutter/rolling-shutter"

type Engine struct {
	prog      *ssa.Program
	pkgs      []*packages.Package
	spkgs     []*ssa.Package
	specs     *SpecSet
	funcs     map[string][]*ssa.Function // pkgpath::key -> functions (several for generic instances)
	globalIDs map[*ssa.Global]int64
	qctr      int
	iterCtr   int
	byName    map[string][]*types.Package
	specSrc   map[string]string // pkg path -> contract file used
	timeoutS  int
	requireAll bool
	interior   *interiorInfo
	constGlobals map[*ssa.Global]*ssa.Const
	vcCache      map[string]string            // function -> hash of its verification conditions on the unchanged tree (vccache.go)
	localTypes   map[string]map[string]string // unit key -> local named by its contract -> type (baseline)
}

func identOf(dr *ssa.DebugRef) string {
	if id, ok := dr.Expr.(*ast.Ident); ok {
		return id.Name
	}
	return ""
}

func LoadEngine(patterns []string) (*Engine, error) {
	cfg := &packages.Config{Mode: packages.LoadSyntax, Dir: repoRoot, BuildFlags: []string{"-tags=verif"},
		Env: append(os.Environ(), "GOFLAGS=-mod=mod", "GOPROXY=off")}
	// Root packages get function bodies; in-repo callees that must be inlined have to be listed as roots.
	pkgs, err := packages.Load(cfg, patterns...)
	if err != nil {
		return nil, err
	}
	var errs []string
	packages.Visit(pkgs, nil, func(p *packages.Package) {
		if strings.HasPrefix(p.PkgPath, modPath) {
			for _, e := range p.Errors {
				errs = append(errs, e.Error())
			}
		}
	})
	if len(errs) > 0 {
		return nil, fmt.Errorf("package errors: %s", strings.Join(errs, "; "))
	}
	prog, spkgs := ssautil.Packages(pkgs, ssa.InstantiateGenerics|ssa.GlobalDebug)
	prog.Build()
	eng := &Engine{prog: prog, pkgs: pkgs, spkgs: spkgs, specs: NewSpecSet(), funcs: map[string][]*ssa.Function{},
		globalIDs: map[*ssa.Global]int64{}, byName: map[string][]*types.Package{}, specSrc: map[string]string{}, timeoutS: 10}
	for _, p := range prog.AllPackages() {
		eng.byName[p.Pkg.Name()] = append(eng.byName[p.Pkg.Name()], p.Pkg)
	}
	for fn := range ssautil.AllFunctions(prog) {
		pp := fnPkgPath(fn)
		if !isRepoPkg(pp) {
			continue
		}
		if fn.TypeParams().Len() > 0 && len(fn.TypeArgs()) == 0 {
			continue // generic origin: only its instantiations have concrete types
		}
		k := pp + "::" + fnKey(fn)
		eng.funcs[k] = append(eng.funcs[k], fn)
	}
	for _, fs := range eng.funcs {
		sort.Slice(fs, func(i, j int) bool { return fs[i].String() < fs[j].String() })
	}
	eng.scanInterior()
	eng.scanConstGlobals()
	eng.assignGlobalIDs()
	eng.localTypes = loadLocalTypes()
	// contracts: externals first, then per-package files from /repo (mirror as fallback)
	if err := eng.specs.LoadSpecFile("/verif/contracts/externals.vspec", ""); err != nil {
		return nil, err
	}
	seen := map[string]bool{}
	for _, p := range prog.AllPackages() {
		pp := p.Pkg.Path()
		if !isRepoPkg(pp) || seen[pp] {
			continue
		}
		seen[pp] = true
		rel := strings.TrimPrefix(strings.TrimPrefix(pp, modPath), "/")
		inRepo := filepath.Join(repoRoot, rel, "zz_contracts_verif.go")
		mirror := filepath.Join("/verif/contracts/mirror", rel, "zz_contracts_verif.go")
		use := ""
		if _, err := os.Stat(inRepo); err == nil {
			use = inRepo
		} else if _, err := os.Stat(mirror); err == nil {
			use = mirror
		}
		if os.Getenv("GOVC_CONTRACTS") == "mirror" { // development: prefer the working copy
			if _, err := os.Stat(mirror); err == nil {
				use = mirror
			}
		}
		if use == "" {
			continue
		}
		if err := eng.specs.LoadSpecFile(use, pp); err != nil {
			return nil, err
		}
		eng.specSrc[pp] = use
	}
	return eng, nil
}

// resolveType parses a small Go type syntax: *T, []T, [N]T, map[K]V, pkg.Name, path/pkg.Name, basic.
func (eng *Engine) resolveType(s string) (types.Type, error) {
	s = strings.TrimSpace(s)
	switch {
	case strings.HasPrefix(s, "*"):
		t, err := eng.resolveType(s[1:])
		if err != nil {
			return nil, err
		}
		return types.NewPointer(t), nil
	case strings.HasPrefix(s, "[]"):
		t, err := eng.resolveType(s[2:])
		if err != nil {
			return nil, err
		}
		return types.NewSlice(t), nil
	case strings.HasPrefix(s, "map["):
		depth := 0
		for i := 3; i < len(s); i++ {
			switch s[i] {
			case '[':
				depth++
			case ']':
				depth--
				if depth == 0 {
					k, err := eng.resolveType(s[4:i])
					if err != nil {
						return nil, err
					}
					v, err := eng.resolveType(s[i+1:])
					if err != nil {
						return nil, err
					}
					return types.NewMap(k, v), nil
				}
			}
		}
		return nil, fmt.Errorf("bad map type %q", s)
	case strings.HasPrefix(s, "["):
		j := strings.Index(s, "]")
		var n int64
		if _, err := fmt.Sscanf(s[1:j], "%d", &n); err != nil {
			return nil, fmt.Errorf("bad array type %q", s)
		}
		t, err := eng.resolveType(s[j+1:])
		if err != nil {
			return nil, err
		}
		return types.NewArray(t, n), nil
	}
	if s == "struct{}" {
		return types.NewStruct(nil, nil), nil
	}
	if s == "byte" {
		s = "uint8"
	}
	if s == "error" {
		return types.Universe.Lookup("error").Type(), nil
	}
	for _, b := range types.Typ {
		if b.Name() == s {
			return b, nil
		}
	}
	dot := strings.LastIndex(s, ".")
	if dot < 0 {
		return nil, fmt.Errorf("cannot resolve type %q (use pkg.Name)", s)
	}
	pkgPart, name := s[:dot], s[dot+1:]
	var cands []*types.Package
	if strings.Contains(pkgPart, "/") {
		for _, p := range eng.prog.AllPackages() {
			if strings.HasSuffix(p.Pkg.Path(), pkgPart) {
				cands = append(cands, p.Pkg)
			}
		}
	} else {
		cands = eng.byName[pkgPart]
	}
	var found []types.Type
	for _, p := range cands {
		if o := p.Scope().Lookup(name); o != nil {
			if tn, ok := o.(*types.TypeName); ok {
				found = append(found, tn.Type())
			}
		}
	}
	if len(found) == 1 {
		return found[0], nil
	}
	if len(found) > 1 {
		// prefer repo packages
		var repo []types.Type
		for _, t := range found {
			if n, ok := t.(*types.Named); ok && n.Obj().Pkg() != nil && isRepoPkg(n.Obj().Pkg().Path()) {
				repo = append(repo, t)
			}
		}
		if len(repo) == 1 {
			return repo[0], nil
		}
		return nil, fmt.Errorf("type %q is ambiguous (%d candidates); qualify with a path suffix", s, len(found))
	}
	return nil, fmt.Errorf("type %q not found", s)
}

// lookupConst resolves pkg.Name to a Go constant (for contracts).
func (eng *Engine) lookupConst(pkg, name string) (SVal, bool) {
	for _, p := range eng.byName[pkg] {
		if o := p.Scope().Lookup(name); o != nil {
			if c, ok := o.(*types.Const); ok {
				if c.Val().Kind() == constant.Int {
					n, ok := new(bigInt).SetString(c.Val().ExactString(), 10)
					if ok {
						return SVal{V: Scalar{BigLit(n)}, T: c.Type()}, true
					}
				}
				if c.Val().Kind() == constant.Bool {
					if constant.BoolVal(c.Val()) {
						return SVal{V: Scalar{TTrue}}, true
					}
					return SVal{V: Scalar{TFalse}}, true
				}
			}
		}
	}
	return SVal{}, false
}

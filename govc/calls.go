package main

import (
	"sort"
	"fmt"
	"go/token"
	"go/types"
	"strings"

	"golang.org/x/tools/go/ssa"
)

const maxInlineDepth = 8

func isRepoPkg(path string) bool {
	return strings.HasPrefix(path, "github.com/shutter-network/rolling-shutter/rolling-shutter")
}

var inertPkgs = []string{
	"github.com/rs/zerolog", "github.com/prometheus/", "go.opentelemetry.io/", "log", "github.com/ipfs/go-log", "sync",
	"github.com/shutter-network/rolling-shutter/rolling-shutter/medley/tracing",
	"github.com/shutter-network/rolling-shutter/rolling-shutter/trace",
}

func isInertPkg(path string) bool {
	for _, p := range inertPkgs {
		if path == p || strings.HasPrefix(path, p) {
			return true
		}
	}
	return false
}

func fnPkgPath(fn *ssa.Function) string {
	if fn.Pkg != nil {
		return fn.Pkg.Pkg.Path()
	}
	if o := fn.Origin(); o != nil && o.Pkg != nil {
		return o.Pkg.Pkg.Path()
	}
	if fn.Object() != nil && fn.Object().Pkg() != nil {
		return fn.Object().Pkg().Path()
	}
	if fn.Signature.Recv() != nil {
		t := fn.Signature.Recv().Type()
		if p, ok := t.(*types.Pointer); ok {
			t = p.Elem()
		}
		if n, ok := t.(*types.Named); ok && n.Obj().Pkg() != nil {
			return n.Obj().Pkg().Path()
		}
	}
	if fn.Parent() != nil {
		return fnPkgPath(fn.Parent())
	}
	return ""
}

// fnKey is the name used in contract files for a function inside its package.
func fnKey(fn *ssa.Function) string {
	s := fn.String()
	pp := fnPkgPath(fn)
	if pp != "" {
		s = strings.ReplaceAll(s, pp+".", "")
	}
	// drop type arguments of generic instances: Voting[...].X -> Voting.X
	return stripTypeArgs(s)
}

func stripTypeArgs(s string) string {
	var b strings.Builder
	depth := 0
	for _, r := range s {
		switch r {
		case '[':
			depth++
		case ']':
			depth--
		default:
			if depth == 0 {
				b.WriteRune(r)
			}
		}
	}
	return b.String()
}

func (fr *Frame) call(x ssa.Value, cc *ssa.CallCommon, st *State, pc Term) Value {
	var args []Value
	for _, a := range cc.Args {
		args = append(args, fr.val(a))
	}
	fnv := fr.val(cc.Value)
	var pos token.Pos
	if i, ok := x.(ssa.Instruction); ok {
		pos = i.Pos()
	}
	return fr.callValues(x, cc, fnv, args, st, pc, pos)
}

func (fr *Frame) callValues(x ssa.Value, cc *ssa.CallCommon, fnv Value, args []Value, st *State, pc Term, pos token.Pos) Value {
	u := fr.u
	fr.curArgTypes = fr.curArgTypes[:0]
	if cc.IsInvoke() {
		fr.curArgTypes = append(fr.curArgTypes, cc.Value.Type())
	}
	for _, a := range cc.Args {
		fr.curArgTypes = append(fr.curArgTypes, a.Type())
	}
	var resT types.Type = cc.Signature().Results()
	if cc.Signature().Results().Len() == 1 {
		resT = cc.Signature().Results().At(0).Type()
	}
	if cc.IsInvoke() {
		recv, ok := fnv.(IfaceV)
		if !ok {
			u.unsupportedf("invoke on %T", fnv)
			return fr.havocCall(cc.Method.FullName(), resT, args, st, pc)
		}
		if !isInertPkg(pkgOfType(cc.Value.Type())) {
			u.oblige(fr, "nil-deref", pos, "", pc, Ne(recv.Tag, IntLit(0)))
		}
		if id, isLit := litVal(recv.Tag); isLit && id.Sign() > 0 {
			dt := u.m.tidTyp[id.Int64()]
			if sel := u.eng.prog.MethodSets.MethodSet(dt).Lookup(cc.Method.Pkg(), cc.Method.Name()); sel != nil {
				if callee := u.eng.prog.MethodValue(sel); callee != nil {
					rv := u.unbox(st, recv.Pay, dt)
					return fr.callFunction(callee, nil, append([]Value{rv}, args...), st, pc, pos, resT)
				}
			}
		}
		// interface method with an external spec
		name := "(" + typeNameFull(cc.Value.Type()) + ")." + cc.Method.Name()
		if sp := u.eng.specs.Funcs[name]; sp != nil {
			return fr.applySpec(sp, nil, name, append([]Value{recv}, args...), cc.Signature(), st, pc, pos, resT, true)
		}
		if isInertPkg(pkgOfType(cc.Value.Type())) {
			return fr.inertResult(resT, st)
		}
		return fr.havocCall(name, resT, append([]Value{recv}, args...), st, pc)
	}
	switch f := fnv.(type) {
	case FuncV:
		switch fn := f.Fn.(type) {
		case *ssa.Builtin:
			return fr.builtin(fn, cc, args, st, pc, pos, resT)
		case *ssa.Function:
			return fr.callFunction(fn, f.Bindings, args, st, pc, pos, resT)
		}
		u.oblige(fr, "nil-deref", pos, "", pc, Ne(f.Opaque, IntLit(0)))
	case Scalar:
		if f.T.Sort == SInt { // function value read from memory
			u.oblige(fr, "nil-deref", pos, "", pc, Ne(f.T, IntLit(0)))
		}
	}
	if sp := u.eng.specs.Funcs["dyn:"+typeNameFull(cc.Value.Type())]; sp != nil {
		return fr.applySpec(sp, nil, "dyn:"+typeNameFull(cc.Value.Type()), args, cc.Signature(), st, pc, pos, resT, true)
	}
	return fr.havocCall("dynamic call "+sourceLine(u.eng.prog, pos), resT, args, st, pc)
}

func pkgOfType(t types.Type) string {
	if p, ok := t.(*types.Pointer); ok {
		t = p.Elem()
	}
	if n, ok := t.(*types.Named); ok && n.Obj().Pkg() != nil {
		return n.Obj().Pkg().Path()
	}
	return ""
}

func typeNameFull(t types.Type) string { return types.TypeString(t, nil) }

// fatalLog models the one zerolog behaviour that is not inert (A-zerolog-fatal): an event started with
// log.Fatal()/Logger.Fatal() ends the process (os.Exit(1)) when it is sent with Msg/Msgf/Send, so control does not
// continue behind such a statement. Events are tracked from the exact constructor through the chained field
// methods (which return the same event) to the terminal method; nothing else in the logging packages is
// interpreted.
func (fr *Frame) fatalLog(full string, args []Value, st *State, pc Term, resT types.Type) (Value, bool) {
	u := fr.u
	switch full {
	case "github.com/rs/zerolog/log.Fatal", "(*github.com/rs/zerolog.Logger).Fatal", "(github.com/rs/zerolog.Logger).Fatal":
		v := fr.inertResult(resT, st)
		if p, ok := v.(PtrV); ok {
			if u.fatalEvents == nil {
				u.fatalEvents = map[string]bool{}
			}
			u.fatalEvents[p.Base.S] = true
		}
		return v, true
	}
	if !strings.HasPrefix(full, "(*github.com/rs/zerolog.Event).") || len(args) == 0 {
		return nil, false
	}
	recv, ok := args[0].(PtrV)
	if !ok || !u.fatalEvents[recv.Base.S] {
		return nil, false
	}
	switch strings.TrimPrefix(full, "(*github.com/rs/zerolog.Event).") {
	case "Msg", "Msgf", "Send":
		u.extUsed["A-zerolog-fatal: a log.Fatal() event ends the process when sent (control does not continue)"] = true
		*st = *(&State{heap: st.heap, alloc: st.alloc, ghost: st.ghost})
		u.c.Assume(Not(pc))
		return u.m.FreshValue(st, "noreturn", resT), true
	}
	v := fr.inertResult(resT, st)
	if p, ok := v.(PtrV); ok {
		if _, isPtr := resT.Underlying().(*types.Pointer); isPtr && pkgOfType(resT) == "github.com/rs/zerolog" {
			u.fatalEvents[p.Base.S] = true
		}
	}
	return v, true
}

func (fr *Frame) inertResult(resT types.Type, st *State) Value {
	u := fr.u
	v := u.m.FreshValue(st, "inert", resT)
	// error constructors return non-nil
	return v
}

func (fr *Frame) callFunction(fn *ssa.Function, bindings []Value, args []Value, st *State, pc Term, pos token.Pos, resT types.Type) Value {
	u := fr.u
	full := fn.String()
	pp := fnPkgPath(fn)
	// 1. contract in /repo
	if isRepoPkg(pp) {
		if sp := u.eng.specs.Funcs[pp+"::"+fnKey(fn)]; sp != nil && !(fn == u.fn && fr.parent == nil) {
			if sp.Opts["inline"] != "always" {
				return fr.applySpec(sp, fn, full, args, fn.Signature, st, pc, pos, resT, false)
			}
		}
	}
	// 2. external spec
	if sp := u.eng.specs.Funcs[stripTypeArgs(full)]; sp != nil {
		return fr.applySpec(sp, fn, full, args, fn.Signature, st, pc, pos, resT, true)
	}
	if sp := u.eng.specs.Funcs[full]; sp != nil {
		return fr.applySpec(sp, fn, full, args, fn.Signature, st, pc, pos, resT, true)
	}
	// 2b. generated database layer (sqlc): opaque, no effect on the Go heap (A-sql)
	if isRepoPkg(pp) && fn.Pos().IsValid() && strings.HasSuffix(u.eng.prog.Fset.Position(fn.Pos()).Filename, ".sqlc.gen.go") && fn.Signature.Recv() != nil {
		u.extUsed["db:"+shortFn(full)] = true
		na := u.c.Fresh("alloc", SInt)
		u.c.Assume(Ge(na, st.alloc))
		st.alloc = na
		if p, ok := args[0].(PtrV); ok {
			u.oblige(fr, "nil-deref", pos, "", pc, Ne(p.Base, IntLit(0)))
		}
		return u.m.FreshValue(st, "db_"+fn.Name(), resT)
	}
	// 3. inline repo functions (and closures)
	if (isRepoPkg(pp) || fn.Parent() != nil && isRepoPkg(fnPkgPath(fn.Parent()))) && len(fn.Blocks) > 0 && !isInertPkg(pp) {
		if fr.depth < maxInlineDepth && !fr.onStack(fn) {
			return fr.inline(fn, bindings, args, st, pc, pos, resT)
		}
		u.unsupportedf("inline depth/recursion limit at %s", full)
		return fr.havocCall(full, resT, args, st, pc)
	}
	// 4. inert packages
	if isInertPkg(pp) {
		fr.lockEffect(full, args, st)
		if v, done := fr.fatalLog(full, args, st, pc, resT); done {
			return v
		}
		return fr.inertResult(resT, st)
	}
	if v, ok := fr.knownExternal(fn, full, args, st, pc, pos, resT); ok {
		return v
	}
	return fr.havocCall(full, resT, args, st, pc)
}

func (fr *Frame) onStack(fn *ssa.Function) bool {
	for f := fr; f != nil; f = f.parent {
		if f.fn == fn {
			return true
		}
	}
	return false
}

// inline executes the callee body in a new frame and merges its return points.
func (fr *Frame) inline(fn *ssa.Function, bindings []Value, args []Value, st *State, pc Term, pos token.Pos, resT types.Type) Value {
	u := fr.u
	u.inlined[shortFn(fn.String())] = true
	sub := u.newFrame(fn, fr)
	sub.freeVars = bindings
	sub.callPath = fr.callPath + ">" + fn.Name()
	for i, p := range fn.Params {
		if i < len(args) {
			sub.env[p] = args[i]
		}
	}
	sub.run(nil, fn.Blocks[0], st, pc, nil, false)
	if len(sub.rets) == 0 {
		// callee never returns (panics on every path)
		*st = *(&State{heap: st.heap, alloc: st.alloc, ghost: st.ghost})
		u.c.Assume(Not(pc))
		return u.m.FreshValue(st, "noreturn", resT)
	}
	var sts []*State
	var conds []Term
	for _, r := range sub.rets {
		sts = append(sts, r.st)
		conds = append(conds, r.pc)
	}
	merged := u.m.mergeStates(sts, conds)
	*st = *merged
	// the continuation is reached only if some return point was
	if len(sub.rets) >= 1 {
		var cs []Term
		for _, r := range sub.rets {
			cs = append(cs, r.pc)
		}
		// facts: pc_after = pc && (or rets). We do not change pc (an SSA block has one pc); instead assume
		// that when pc holds, one of the return points was taken (the other exits are panics, which are
		// separate obligations).
		u.c.Assume(Imp(pc, Or(cs...)))
	}
	sig := fn.Signature
	n := sig.Results().Len()
	if n == 0 {
		return TupleV{}
	}
	vals := make([]Value, n)
	for i := 0; i < n; i++ {
		var cur Value
		for j := len(sub.rets) - 1; j >= 0; j-- {
			v := sub.rets[j].vals[i]
			if cur == nil {
				cur = v
			} else {
				cur, _ = u.m.mergeValues(sub.rets[j].pc, v, cur, sig.Results().At(i).Type())
			}
		}
		vals[i] = cur
	}
	if n == 1 {
		return vals[0]
	}
	return TupleV{V: vals}
}

// havocCall: unknown callee. Results are fresh, heap reachable from pointer arguments is havoced.
// havocSliceArg forgets the elements of a slice passed to an unmodelled callee.
func (u *Unit) havocSliceArg(st *State, s SliceV, t types.Type) {
	sl, ok := t.Underlying().(*types.Slice)
	if !ok {
		return
	}
	elem := sl.Elem()
	p := PtrV{Base: s.Arr, Obj: elem, Arr: true}
	for _, lf := range leaves(elem) {
		name, _ := compName(p, lf.Path)
		u.m.markRef(name, lf.Kind)
		comp := u.m.comp(st, name, u.m.compSort(true, lf.Sort))
		ni := u.c.Fresh("hvelems", ArrSort(SInt, lf.Sort))
		u.m.noteWrite(name, s.Arr)
		st.heap[name] = u.c.Def(name, Ite(Eq(s.Arr, IntLit(0)), comp, Store(comp, s.Arr, ni)))
	}
}

func (fr *Frame) havocCall(name string, resT types.Type, args []Value, st *State, pc Term) Value {
	u := fr.u
	for i, a := range args {
		if sv, ok := a.(SliceV); ok && i < len(fr.curArgTypes) {
			u.havocSliceArg(st, sv, fr.curArgTypes[i])
		}
	}
	u.c.Note("unmodelled call (results fresh, argument objects havoced): " + shortFn(name))
	u.extUsed["havoc:"+shortFn(name)] = true
	for _, a := range args {
		u.havocReachable(st, a, 0)
	}
	// an unknown callee may change what the ghost abstractions (hfn: value of a big integer, data of a buffer,
	// point of a key) stand for, if it receives any pointer, slice, interface or closure at all
	touches := false
	for _, a := range args {
		switch a.(type) {
		case PtrV, SliceV, IfaceV, FuncV:
			touches = true
		}
	}
	if touches {
		var hnames []string
		for hn := range u.eng.specs.HFns {
			hnames = append(hnames, hn)
		}
		sort.Strings(hnames)
		for _, hn := range hnames {
			h := u.eng.specs.HFns[hn]
			key := "G|" + hn
			if _, live := st.heap[key]; live {
				st.heap[key] = u.c.Fresh("hv_G_"+hn, ArrSort(SInt, h.Ret))
			}
		}
	}
	na := u.c.Fresh("alloc", SInt)
	u.c.Assume(Ge(na, st.alloc))
	st.alloc = na
	return u.m.FreshValue(st, "ret_"+lastSeg(name), resT)
}

func lastSeg(s string) string {
	if i := strings.LastIndexAny(s, "./)"); i >= 0 && i+1 < len(s) {
		return s[i+1:]
	}
	return s
}

// havocReachable forgets the contents of the object a pointer/slice argument designates.
func (u *Unit) havocReachable(st *State, v Value, depth int) {
	switch x := v.(type) {
	case PtrV:
		if x.pointee() == nil {
			return
		}
		t := x.pointee()
		if x.Arr && x.Idx == nil {
			return
		}
		nv := u.m.FreshValue(st, "hv", t)
		u.m.StoreVal(st, x, nv)
	case SliceV:
		// contents of the backing array may be overwritten by the callee; the element type is not known
		// here, see havocSliceArg (called with the static argument type)
	case IfaceV:
		// an interface holding a pointer of statically known dynamic type: the callee may write the pointee
		if id, isLit := litVal(x.Tag); isLit && id.Sign() > 0 {
			if dt, ok := u.m.tidTyp[id.Int64()]; ok {
				if pt, isPtr := dt.Underlying().(*types.Pointer); isPtr {
					u.havocReachable(st, u.m.ptrFromTerm(x.Pay, pt.Elem()), depth+1)
				}
			}
		}
	case StructV:
		for _, f := range x.F {
			u.havocReachable(st, f, depth+1)
		}
	}
}

// ---------------------------------------------------------------------------------------------
// builtins

func (fr *Frame) builtin(b *ssa.Builtin, cc *ssa.CallCommon, args []Value, st *State, pc Term, pos token.Pos, resT types.Type) Value {
	u := fr.u
	switch b.Name() {
	case "len", "cap":
		switch x := args[0].(type) {
		case SliceV:
			if b.Name() == "len" {
				return Scalar{x.Len}
			}
			return Scalar{x.Cap}
		case Scalar:
			switch t := cc.Args[0].Type().Underlying().(type) {
			case *types.Basic:
				return Scalar{app(SInt, "strlen", x.T)}
			case *types.Map:
				return Scalar{u.mapLen(st, t, x.T)}
			case *types.Array:
				return Scalar{IntLit(t.Len())}
			case *types.Chan:
				r := u.c.Fresh("chanlen", SInt)
				u.c.Assume(Le(IntLit(0), r))
				return Scalar{r}
			}
		case PtrV:
			return Scalar{IntLit(arrayLenOfPtr(cc.Args[0].Type()))}
		}
	case "append":
		return fr.appendOp(cc, args, st, pc, pos)
	case "copy":
		return fr.copyOp(cc, args, st, pc)
	case "delete":
		mt := cc.Args[0].Type().Underlying().(*types.Map)
		u.frameCheckMap(fr, pc, mt, args[0].(Scalar).T, pos)
		u.mapDelete(st, mt, args[0].(Scalar).T, args[1])
		return TupleV{}
	case "print", "println":
		return TupleV{}
	case "min", "max":
		if len(args) == 2 {
			a, aok := args[0].(Scalar)
			c, cok := args[1].(Scalar)
			if aok && cok && a.T.Sort == SInt {
				if b.Name() == "min" {
					return Scalar{Ite(Le(a.T, c.T), a.T, c.T)}
				}
				return Scalar{Ite(Ge(a.T, c.T), a.T, c.T)}
			}
		}
	case "ssa:wrapnilchk":
		if p, ok := args[0].(PtrV); ok {
			u.oblige(fr, "nil-deref", pos, "", pc, Ne(p.Base, IntLit(0)))
		}
		return args[0]
	}
	u.unsupportedf("builtin %s in %s", b.Name(), fr.fn.Name())
	return u.m.FreshValue(st, "builtin", resT)
}

func (fr *Frame) appendOp(cc *ssa.CallCommon, args []Value, st *State, pc Term, pos token.Pos) Value {
	u := fr.u
	m := u.m
	s, ok := args[0].(SliceV)
	if !ok {
		u.unsupportedf("append to %T", args[0])
		return m.FreshValue(st, "append", cc.Args[0].Type())
	}
	// A-append (the result always lives in a new array) is not a sound model for a slice that is shared through a
	// package-level variable: appending into its spare capacity makes the results of different calls alias
	if ld, isLoad := cc.Args[0].(*ssa.UnOp); isLoad && ld.Op == token.MUL {
		if g, isGlobal := ld.X.(*ssa.Global); isGlobal {
			u.unsupportedf("append to the package-level slice %s in %s: results may share its backing array (outside the append model)", g.Name(), fr.fn.Name())
		}
	}
	elem := cc.Args[0].Type().Underlying().(*types.Slice).Elem()
	var t SliceV
	tIsString := false
	var tstr Term
	switch y := args[1].(type) {
	case SliceV:
		t = y
	case Scalar: // append([]byte, string...)
		tIsString = true
		tstr = y.T
		t = SliceV{IntLit(0), IntLit(0), app(SInt, "strlen", y.T), app(SInt, "strlen", y.T)}
	default:
		u.unsupportedf("append of %T", args[1])
		return m.FreshValue(st, "append", cc.Args[0].Type())
	}
	newLen := u.c.Def("applen", Add(s.Len, t.Len))
	if lim := u.allocLimit(fr, st); lim != nil {
		u.oblige(fr, "bounded-alloc", pos, "", pc, Le(newLen, *lim))
	}
	// Go appends in place when capacity suffices; otherwise it reallocates. We model both: the result
	// array is fresh iff newLen > cap(s). In-place appends write into the shared backing array.
	arr := m.Alloc(st, "apparr")
	newCap := u.c.Fresh("appcap", SInt)
	u.c.Assume(Ge(newCap, newLen))
	u.c.Assume(Le(newCap, BigLit(maxElems(cc.Args[0].Type())))) // A-slice-size (running out of memory is outside the model)
	p := PtrV{Base: arr, Obj: elem, Arr: true}
	for _, lf := range leaves(elem) {
		name, _ := compName(p, lf.Path)
		comp := m.comp(st, name, m.compSort(true, lf.Sort))
		innerS := ArrSort(SInt, lf.Sort)
		oldInner := Select(comp, s.Arr)
		var newInner Term
		tl, tlLit := litVal(t.Len)
		if s.Off.S == "0" && tlLit && tl.IsInt64() && tl.Int64() <= 4 && !tIsString {
			// fast path: copy of the old array with the new elements stored behind the old length
			newInner = oldInner
			tInner := Select(comp, t.Arr)
			for i := int64(0); i < tl.Int64(); i++ {
				newInner = Store(newInner, Add(s.Len, IntLit(i)), Select(tInner, ElemIdx(t.Off, IntLit(i))))
			}
		} else {
			ni := u.c.Fresh("appinner", innerS)
			if tlLit && tl.IsInt64() && tl.Int64() <= 4 && !tIsString {
				// old part copied (quantified), new elements stored explicitly
				// two alternative triggers: a read of the new array, or a read of the old one (so that facts known
				// about old elements - e.g. the witness of an existential invariant - carry over to the copy)
				alt := fmt.Sprintf(" :pattern ((select %s (sidx %s i)))", oldInner.S, s.Off.S)
				if !patternSafe(alt) {
					alt = "" // boolean structure (ite/and/not...) is not allowed inside a pattern
				}
				u.c.Raw(fmt.Sprintf("(assert (forall ((i Int)) (! (=> (and (<= 0 i) (< i %s)) (= (select %s i) (select %s (sidx %s i)))) :pattern ((select %s i))%s)))",
					s.Len.S, ni.S, oldInner.S, s.Off.S, ni.S, alt))
				tInner := Select(comp, t.Arr)
				for i := int64(0); i < tl.Int64(); i++ {
					u.c.Assume(Eq(Select(ni, Add(s.Len, IntLit(i))), Select(tInner, ElemIdx(t.Off, IntLit(i)))))
				}
				st.heap[name] = u.c.Def(name, Store(comp, arr, ni))
				continue
			}
			if !u.preciseContent() {
				u.c.Note("append of a slice of unknown length: contents abstracted (opt content=precise to model them)")
				st.heap[name] = u.c.Def(name, Store(comp, arr, ni))
				continue
			}
			u.c.Raw(fmt.Sprintf("(assert (forall ((i Int)) (! (=> (and (<= 0 i) (< i %s)) (= (select %s i) (select %s (+ %s i)))) :pattern ((select %s i)))))",
				s.Len.S, ni.S, oldInner.S, s.Off.S, ni.S))
			if tIsString {
				u.c.Raw(fmt.Sprintf("(assert (forall ((i Int)) (! (=> (and (<= 0 i) (< i %s)) (= (select %s (+ %s i)) (str_at %s i))) :pattern ((select %s (+ %s i))))))",
					t.Len.S, ni.S, s.Len.S, tstr.S, ni.S, s.Len.S))
			} else {
				tInner := Select(comp, t.Arr)
				u.c.Raw(fmt.Sprintf("(assert (forall ((i Int)) (! (=> (and (<= 0 i) (< i %s)) (= (select %s (+ %s i)) (select %s (sidx %s i)))) :pattern ((select %s (+ %s i))))))",
					t.Len.S, ni.S, s.Len.S, tInner.S, t.Off.S, ni.S, s.Len.S))
			}
			newInner = ni
		}
		st.heap[name] = u.c.Def(name, Store(comp, arr, newInner))
	}
	u.c.Note("append modelled as always reallocating (A-append)")
	return SliceV{arr, IntLit(0), newLen, newCap}
}

func (fr *Frame) copyOp(cc *ssa.CallCommon, args []Value, st *State, pc Term) Value {
	u := fr.u
	m := u.m
	d, ok := args[0].(SliceV)
	if !ok {
		u.unsupportedf("copy into %T", args[0])
		return Scalar{u.c.Fresh("copyn", SInt)}
	}
	elem := cc.Args[0].Type().Underlying().(*types.Slice).Elem()
	var srcLen Term
	var srcAt func(comp Term, i string) string
	switch s := args[1].(type) {
	case SliceV:
		srcLen = s.Len
		srcAt = func(comp Term, i string) string {
			return fmt.Sprintf("(select (select %s %s) (sidx %s %s))", comp.S, s.Arr.S, s.Off.S, i)
		}
	case Scalar:
		srcLen = app(SInt, "strlen", s.T)
		srcAt = func(comp Term, i string) string { return fmt.Sprintf("(str_at %s %s)", s.T.S, i) }
	default:
		u.unsupportedf("copy from %T", args[1])
		return Scalar{u.c.Fresh("copyn", SInt)}
	}
	n := u.c.Def("copyn", Ite(Le(d.Len, srcLen), d.Len, srcLen))
	p := PtrV{Base: d.Arr, Obj: elem, Arr: true}
	for _, lf := range leaves(elem) {
		name, _ := compName(p, lf.Path)
		comp := m.comp(st, name, m.compSort(true, lf.Sort))
		innerS := ArrSort(SInt, lf.Sort)
		ni := u.c.Fresh("copyinner", innerS)
		oldInner := Select(comp, d.Arr)
		m.noteWrite(name, d.Arr)
		if !u.preciseContent() {
			u.c.Note("copy: destination contents abstracted (opt content=precise to model them)")
			st.heap[name] = u.c.Def(name, Ite(Gt(n, IntLit(0)), Store(comp, d.Arr, ni), comp))
			continue
		}
		u.c.Raw(fmt.Sprintf("(assert (forall ((i Int)) (! (=> (and (<= 0 i) (< i %s)) (= (select %s (sidx %s i)) %s)) :pattern ((select %s (sidx %s i))))))",
			n.S, ni.S, d.Off.S, srcAt(comp, "i"), ni.S, d.Off.S))
		u.c.Raw(fmt.Sprintf("(assert (forall ((i Int)) (! (=> (or (< i %s) (>= i (+ %s %s))) (= (select %s i) (select %s i))) :pattern ((select %s i)))))",
			d.Off.S, d.Off.S, n.S, ni.S, oldInner.S, ni.S))
		st.heap[name] = u.c.Def(name, Ite(Gt(n, IntLit(0)), Store(comp, d.Arr, ni), comp))
	}
	return Scalar{n}
}

// allocLimit evaluates the unit's bounded-alloc expression (if any) in the entry state.
func (u *Unit) allocLimit(fr *Frame, st *State) *Term {
	if u.spec == nil {
		return nil
	}
	txt, ok := u.spec.Opts["bounded-alloc"]
	if !ok {
		return nil
	}
	e, err := ParseSpecExpr(txt)
	if err != nil {
		u.unsupportedf("bounded-alloc expression: %v", err)
		return nil
	}
	env := u.specEnvForUnit(u.entrySt, u.entrySt, nil)
	v, err := env.evalTerm(e)
	if err != nil {
		u.unsupportedf("bounded-alloc expression: %v", err)
		return nil
	}
	return &v
}

func (u *Unit) preciseContent() bool {
	return u.spec != nil && u.spec.Opts["content"] == "precise"
}

// patternSafe reports whether a term may be used as a quantifier pattern: no boolean connectives,
// comparisons or ite inside it.
func patternSafe(t string) bool {
	for _, op := range []string{"(ite ", "(and ", "(or ", "(not ", "(=> ", "(= ", "(< ", "(<= ", "(> ", "(>= ", "(distinct "} {
		if strings.Contains(t, op) {
			return false
		}
	}
	return true
}

// lockEffect keeps a ghost hold count per mutex location for sync.(RW)Mutex Lock/Unlock calls. At every
// return point of a unit the count of each mutex the function touched must equal its value at entry
// ("lock-balance" obligation): a path that returns with a mutex still held blocks every later caller - the
// "never hang" half of C05 for code that guards shared state with a mutex.
func (fr *Frame) lockEffect(full string, args []Value, st *State) {
	d := 0
	switch full {
	case "(*sync.Mutex).Lock", "(*sync.RWMutex).Lock", "(*sync.RWMutex).RLock":
		d = 1
	case "(*sync.Mutex).Unlock", "(*sync.RWMutex).Unlock", "(*sync.RWMutex).RUnlock":
		d = -1
	default:
		return
	}
	if len(args) == 0 {
		return
	}
	p, ok := args[0].(PtrV)
	if !ok {
		return
	}
	key := fmt.Sprintf("lock|%s|%v", p.Base.S, p.Path)
	u := fr.u
	cur, ok := st.ghost[key]
	if !ok {
		cur = u.ghostInit(key)
	}
	st.ghost[key] = u.c.Def("held", Add(cur, IntLit(int64(d))))
}

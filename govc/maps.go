package main

import (
	"fmt"
	"go/types"
	"strings"

	"golang.org/x/tools/go/ssa"
)

type IterV struct {
	Kind string // map | str
	M    Term
	Key  string // ghost key of the visited set / position
	T    types.Type
}

func mapKeySort(mt *types.Map) Sort {
	if s, _, ok := isScalarLeaf(mt.Key()); ok {
		if strings.HasPrefix(string(s), "(Array ") {
			return SInt // fixed-size array keys ([20]byte addresses) are keyed by an injective code, see arrKey
		}
		return s
	}
	// a struct key with exactly one scalar leaf is keyed by that leaf; with several scalar leaves by an
	// injective integer code of the tuple (see tupleKey)
	if _, isStruct := mt.Key().Underlying().(*types.Struct); isStruct {
		lfs := leaves(mt.Key())
		if len(lfs) == 1 && lfs[0].Kind != "opaque" {
			if strings.HasPrefix(string(lfs[0].Sort), "(Array ") {
				return SInt
			}
			return lfs[0].Sort
		}
		if len(lfs) > 1 {
			ok := true
			for _, lf := range lfs {
				if lf.Kind == "opaque" || lf.Kind == "float" {
					ok = false
				}
			}
			if ok {
				return SInt
			}
		}
	}
	if _, ok := mt.Key().Underlying().(*types.Interface); ok {
		return SInt // abstraction: interface keys compared by payload only
	}
	return Sort("Opaque")
}

// arrKey maps a fixed-size array value to an integer code; the code is injective (axiom), so map
// lookups keyed by addresses behave exactly as with the arrays themselves while the solvers only see
// integer-indexed arrays.
func (u *Unit) arrKey(t Term) Term {
	fn := "akey_" + sanitize(string(t.Sort))
	if !u.c.funs[fn] {
		u.c.DeclFun(fn, []Sort{t.Sort}, SInt)
		u.c.Raw(fmt.Sprintf("(assert (forall ((a %s) (b %s)) (! (=> (= (%s a) (%s b)) (= a b)) :pattern ((%s a) (%s b)))))", t.Sort, t.Sort, fn, fn, fn, fn))
	}
	return app(SInt, fn, t)
}

func (u *Unit) mapKeyTerm(mt *types.Map, k Value) Term {
	switch x := k.(type) {
	case Scalar:
		if strings.HasPrefix(string(x.T.Sort), "(Array ") {
			return u.arrKey(x.T)
		}
		return x.T
	case PtrV:
		return x.Base
	case IfaceV:
		return x.Pay
	case StructV:
		ts := u.m.flatten(mt.Key(), x)
		if len(ts) == 1 {
			if strings.HasPrefix(string(ts[0].Sort), "(Array ") {
				return u.arrKey(ts[0])
			}
			return ts[0]
		}
		if len(ts) > 1 && mapKeySort(mt) == SInt {
			return u.tupleKey(ts)
		}
	}
	u.unsupportedf("map key of kind %T (%s)", k, typeName(mt.Key()))
	return u.c.Fresh("mapkey", mapKeySort(mt))
}

func (u *Unit) mapDomName(mt *types.Map) string { return "MD|" + typeName(mt) + "|" }
func (u *Unit) mapLenName(mt *types.Map) string { return "ML|" + typeName(mt) + "|" }
func (u *Unit) mapValName(mt *types.Map, leaf string) string {
	return "MV|" + typeName(mt) + "|" + leaf
}

func (u *Unit) mapDom(st *State, mt *types.Map, mref Term) Term {
	ks := mapKeySort(mt)
	comp := u.m.comp(st, u.mapDomName(mt), ArrSort(SInt, ArrSort(ks, SBool)))
	return Select(comp, mref)
}

func (u *Unit) mapInit(st *State, mt *types.Map, r Term) {
	ks := mapKeySort(mt)
	name := u.mapDomName(mt)
	comp := u.m.comp(st, name, ArrSort(SInt, ArrSort(ks, SBool)))
	empty := Term{fmt.Sprintf("((as const %s) false)", ArrSort(ks, SBool)), ArrSort(ks, SBool)}
	st.heap[name] = u.c.Def(name, Store(comp, r, empty))
	ln := u.mapLenName(mt)
	lc := u.m.comp(st, ln, SArrI)
	st.heap[ln] = u.c.Def(ln, Store(lc, r, IntLit(0)))
}

func (u *Unit) mapHas(st *State, mt *types.Map, mref, k Term) Term {
	return And(Ne(mref, IntLit(0)), Select(u.mapDom(st, mt, mref), k))
}

func (u *Unit) mapLen(st *State, mt *types.Map, mref Term) Term {
	lc := u.m.comp(st, u.mapLenName(mt), SArrI)
	r := u.c.Def("maplen", Select(lc, mref))
	u.c.Assume(Le(IntLit(0), r))
	u.c.Assume(Imp(Eq(mref, IntLit(0)), Eq(r, IntLit(0))))
	return r
}

// mapLoadVal reads the stored value (meaningful only where the key is present).
func (u *Unit) mapLoadVal(st *State, mt *types.Map, mref, k Term) Value {
	ks := mapKeySort(mt)
	lfs := leaves(mt.Elem())
	if len(lfs) == 0 {
		return StructV{}
	}
	terms := make([]Term, len(lfs))
	for i, lf := range lfs {
		u.m.markRef(u.mapValName(mt, lf.Path), lf.Kind)
		comp := u.m.comp(st, u.mapValName(mt, lf.Path), ArrSort(SInt, ArrSort(ks, lf.Sort)))
		terms[i] = u.c.Def("mv", Select(Select(comp, mref), k))
		u.m.assumeLeafType(st, terms[i], lf.T, lf.Kind)
	}
	v, _ := u.m.unflatten(mt.Elem(), terms)
	u.m.assumeValueShape(st, v, mt.Elem())
	return v
}

func (u *Unit) mapStore(st *State, mt *types.Map, mref Term, kv, vv Value) {
	ks := mapKeySort(mt)
	k := u.mapKeyTerm(mt, kv)
	dn := u.mapDomName(mt)
	dcomp := u.m.comp(st, dn, ArrSort(SInt, ArrSort(ks, SBool)))
	had := Select(Select(dcomp, mref), k)
	ln := u.mapLenName(mt)
	u.m.noteWrite(dn, mref)
	u.m.noteWrite(ln, mref)
	for _, lf := range leaves(mt.Elem()) {
		u.m.noteWrite(u.mapValName(mt, lf.Path), mref)
	}
	lc := u.m.comp(st, ln, SArrI)
	st.heap[ln] = u.c.Def(ln, Store(lc, mref, Add(Select(lc, mref), Ite(had, IntLit(0), IntLit(1)))))
	st.heap[dn] = u.c.Def(dn, Store(dcomp, mref, Store(Select(dcomp, mref), k, TTrue)))
	lfs := leaves(mt.Elem())
	if len(lfs) == 0 {
		return
	}
	terms := u.m.flatten(mt.Elem(), vv)
	for i, lf := range lfs {
		name := u.mapValName(mt, lf.Path)
		u.m.markRef(name, lf.Kind)
		comp := u.m.comp(st, name, ArrSort(SInt, ArrSort(ks, lf.Sort)))
		st.heap[name] = u.c.Def(name, Store(comp, mref, Store(Select(comp, mref), k, terms[i])))
	}
}

func (u *Unit) mapDelete(st *State, mt *types.Map, mref Term, kv Value) {
	ks := mapKeySort(mt)
	k := u.mapKeyTerm(mt, kv)
	dn := u.mapDomName(mt)
	dcomp := u.m.comp(st, dn, ArrSort(SInt, ArrSort(ks, SBool)))
	had := And(Ne(mref, IntLit(0)), Select(Select(dcomp, mref), k))
	ln := u.mapLenName(mt)
	u.m.noteWrite(dn, mref)
	u.m.noteWrite(ln, mref)
	lc := u.m.comp(st, ln, SArrI)
	st.heap[ln] = u.c.Def(ln, Store(lc, mref, Sub(Select(lc, mref), Ite(had, IntLit(1), IntLit(0)))))
	st.heap[dn] = u.c.Def(dn, Ite(Eq(mref, IntLit(0)), dcomp, Store(dcomp, mref, Store(Select(dcomp, mref), k, TFalse))))
}

func (fr *Frame) lookup(x *ssa.Lookup, st *State, pc Term) Value {
	u := fr.u
	switch mt := x.X.Type().Underlying().(type) {
	case *types.Map:
		mref := fr.val(x.X).(Scalar).T
		k := u.mapKeyTerm(mt, fr.val(x.Index))
		has := u.c.Def("has", u.mapHas(st, mt, mref, k))
		val := u.mapLoadVal(st, mt, mref, k)
		zero := u.m.ZeroValue(mt.Elem())
		res := val
		if len(leaves(mt.Elem())) > 0 {
			if mv, ok := u.m.mergeValues(has, val, zero, mt.Elem()); ok {
				res = mv
			}
		}
		if x.CommaOk {
			return TupleV{V: []Value{res, Scalar{has}}}
		}
		return res
	case *types.Basic:
		s := fr.val(x.X).(Scalar).T
		idx := fr.val(x.Index).(Scalar).T
		u.oblige(fr, "index", x.Pos(), "", pc, And(Le(IntLit(0), idx), Lt(idx, app(SInt, "strlen", s))))
		r := u.c.Def("sidx", app(SInt, "str_at", s, idx))
		u.c.Assume(And(Le(IntLit(0), r), Le(r, IntLit(255))))
		return Scalar{r}
	}
	u.unsupportedf("Lookup on %s", typeName(x.X.Type()))
	return u.m.FreshValue(st, "lookup", x.Type())
}

func (fr *Frame) rangeInit(x *ssa.Range, st *State) Value {
	u := fr.u
	// stable across runs: token.Pos values depend on the order in which files entered the FileSet, and
	// symbol names influence the solvers' search, so the key uses the ordinal of the range statement in its function instead
	ord := 0
	for _, b := range fr.fn.Blocks {
		for _, ins := range b.Instrs {
			if r, ok := ins.(*ssa.Range); ok {
				if r == x {
					goto found
				}
				ord++
			}
		}
	}
found:
	key := fmt.Sprintf("iter|%s|r%d", fr.fn.Name(), ord)
	u.iterOrder = append(u.iterOrder, key)
	switch mt := x.X.Type().Underlying().(type) {
	case *types.Map:
		ks := mapKeySort(mt)
		st.ghost[key] = Term{fmt.Sprintf("((as const %s) false)", ArrSort(ks, SBool)), ArrSort(ks, SBool)}
		return IterV{Kind: "map", M: fr.val(x.X).(Scalar).T, Key: key, T: mt}
	default:
		st.ghost[key] = IntLit(0)
		return IterV{Kind: "str", M: fr.val(x.X).(Scalar).T, Key: key, T: x.X.Type()}
	}
}

func (fr *Frame) rangeNext(x *ssa.Next, st *State, pc Term) Value {
	u := fr.u
	it, ok := fr.val(x.Iter).(IterV)
	if !ok {
		u.unsupportedf("Next on %T", fr.val(x.Iter))
		return u.m.FreshValue(st, "next", x.Type())
	}
	okT := u.c.Fresh("next_ok", SBool)
	if it.Kind == "map" {
		mt := it.T.(*types.Map)
		ks := mapKeySort(mt)
		visited := st.ghost[it.Key]
		if u.forcedKey != nil {
			// order-independence check: this iteration processes the given key
			kv := *u.forcedKey
			k := u.mapKeyTerm(mt, kv)
			st.ghost[it.Key] = u.c.Def("visited", Store(visited, k, TTrue))
			return TupleV{V: []Value{Scalar{TTrue}, kv, u.mapLoadVal(st, mt, it.M, k)}}
		}
		kv := u.m.FreshValue(st, "next_key", mt.Key())
		k := u.mapKeyTerm(mt, kv)
		dom := u.mapDom(st, mt, it.M)
		u.c.Assume(Imp(okT, And(Ne(it.M, IntLit(0)), Select(dom, k), Not(Select(visited, k)))))
		u.c.Raw(fmt.Sprintf("(assert (=> (not %s) (or (= %s 0) (forall ((k %s)) (! (=> (select %s k) (select %s k)) :pattern ((select %s k)))))))",
			okT.S, it.M.S, ks, dom.S, visited.S, visited.S))
		st.ghost[it.Key] = u.c.Def("visited", Ite(okT, Store(visited, k, TTrue), visited))
		val := u.mapLoadVal(st, mt, it.M, k)
		return TupleV{V: []Value{Scalar{okT}, kv, val}}
	}
	// string iteration: positions increase, runes abstract
	pos := st.ghost[it.Key]
	ln := app(SInt, "strlen", it.M)
	u.c.Assume(Eq(okT, Lt(pos, ln)))
	width := u.c.Fresh("runew", SInt)
	u.c.Assume(And(Le(IntLit(1), width), Le(width, IntLit(4)), Imp(okT, Le(Add(pos, width), ln))))
	r := u.c.Fresh("rune", SInt)
	u.c.Assume(And(Le(IntLit(0), r), Le(r, IntLit(0x10FFFF))))
	st.ghost[it.Key] = u.c.Def("strpos", Ite(okT, Add(pos, width), pos))
	return TupleV{V: []Value{Scalar{okT}, Scalar{pos}, Scalar{r}}}
}

// tupleKey codes a tuple of scalar leaves as one integer with an injective pairing function.
func (u *Unit) tupleKey(ts []Term) Term {
	code := func(t Term) Term {
		switch {
		case t.Sort == SInt:
			return t
		case t.Sort == SBool:
			return Ite(t, IntLit(1), IntLit(0))
		case strings.HasPrefix(string(t.Sort), "(Array "):
			return u.arrKey(t)
		case t.Sort == SStr:
			if !u.c.funs["strkey"] {
				u.c.DeclFun("strkey", []Sort{SStr}, SInt)
				u.c.Raw("(assert (forall ((a Str) (b Str)) (! (=> (= (strkey a) (strkey b)) (= a b)) :pattern ((strkey a) (strkey b)))))")
			}
			return app(SInt, "strkey", t)
		}
		return t
	}
	if !u.c.funs["pairkey"] {
		u.c.DeclFun("pairkey", []Sort{SInt, SInt}, SInt)
		u.c.Raw("(assert (forall ((a Int) (b Int) (c Int) (d Int)) (! (=> (= (pairkey a b) (pairkey c d)) (and (= a c) (= b d))) :pattern ((pairkey a b) (pairkey c d)))))")
	}
	cur := code(ts[0])
	for _, t := range ts[1:] {
		cur = app(SInt, "pairkey", cur, code(t))
	}
	return cur
}

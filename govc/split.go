package main

import "strings"

// Goal splitting: when the solvers cannot decide "hyp => (A and B)" within the timeout, the conjuncts
// are tried one at a time. The split distributes over =>, forall, let and pattern annotations, and over a
// disjunction in the antecedent of an implication (one part per disjunct), so the conjunction of the parts is
// equivalent to the goal; nothing is weakened.

type sx struct {
	atom string
	kids []*sx
}

func parseSx(s string) *sx {
	pos := 0
	var parse func() *sx
	parse = func() *sx {
		for pos < len(s) && (s[pos] == ' ' || s[pos] == '\n' || s[pos] == '\t') {
			pos++
		}
		if pos >= len(s) {
			return nil
		}
		if s[pos] == '(' {
			pos++
			n := &sx{}
			for {
				for pos < len(s) && (s[pos] == ' ' || s[pos] == '\n' || s[pos] == '\t') {
					pos++
				}
				if pos >= len(s) {
					return nil
				}
				if s[pos] == ')' {
					pos++
					return n
				}
				k := parse()
				if k == nil {
					return nil
				}
				n.kids = append(n.kids, k)
			}
		}
		start := pos
		switch s[pos] {
		case '|':
			pos++
			for pos < len(s) && s[pos] != '|' {
				pos++
			}
			pos++
		case '"':
			pos++
			for pos < len(s) {
				if s[pos] == '"' {
					if pos+1 < len(s) && s[pos+1] == '"' {
						pos += 2
						continue
					}
					break
				}
				pos++
			}
			pos++
		default:
			for pos < len(s) && s[pos] != ' ' && s[pos] != '(' && s[pos] != ')' && s[pos] != '\n' && s[pos] != '\t' {
				pos++
			}
		}
		if pos > len(s) {
			return nil
		}
		return &sx{atom: s[start:pos]}
	}
	n := parse()
	for pos < len(s) && (s[pos] == ' ' || s[pos] == '\n') {
		pos++
	}
	if pos != len(s) {
		return nil
	}
	return n
}

func (n *sx) String() string {
	if n.kids == nil && n.atom != "" {
		return n.atom
	}
	var b strings.Builder
	n.write(&b)
	return b.String()
}

func (n *sx) write(b *strings.Builder) {
	if n.atom != "" {
		b.WriteString(n.atom)
		return
	}
	b.WriteByte('(')
	for i, k := range n.kids {
		if i > 0 {
			b.WriteByte(' ')
		}
		k.write(b)
	}
	b.WriteByte(')')
}

func (n *sx) head() string {
	if n.atom == "" && len(n.kids) > 0 {
		return n.kids[0].atom
	}
	return ""
}

func splitSx(n *sx) []*sx {
	switch n.head() {
	case "and":
		var out []*sx
		for _, k := range n.kids[1:] {
			out = append(out, splitSx(k)...)
		}
		return out
	case "=>":
		if len(n.kids) == 3 {
			// (a or b) => G  is  (a => G) and (b => G): a return point reached over several paths is proved path
			// by path (the merged heap of the join collapses once the path is fixed)
			ants := []*sx{n.kids[1]}
			if n.kids[1].head() == "or" && len(n.kids[1].kids) >= 3 && len(n.kids[1].kids) <= 9 {
				ants = n.kids[1].kids[1:]
			}
			var out []*sx
			for _, a := range ants {
				for _, p := range splitSx(n.kids[2]) {
					out = append(out, &sx{kids: []*sx{n.kids[0], a, p}})
				}
			}
			return out
		}
	case "forall", "let":
		if len(n.kids) == 3 {
			var out []*sx
			for _, p := range splitSx(n.kids[2]) {
				out = append(out, &sx{kids: []*sx{n.kids[0], n.kids[1], p}})
			}
			return out
		}
	case "!":
		// (! body :pattern (...)): the pattern may mention terms of other conjuncts only; drop it when splitting
		if len(n.kids) >= 2 {
			ps := splitSx(n.kids[1])
			if len(ps) > 1 {
				return ps
			}
		}
	}
	return []*sx{n}
}

// splitGoal returns the conjuncts of a goal (nil when it does not split or there are too many parts).
func splitGoal(goal string) []string {
	n := parseSx(goal)
	if n == nil {
		return nil
	}
	ps := splitSx(n)
	if len(ps) < 2 || len(ps) > 24 {
		return nil
	}
	out := make([]string, len(ps))
	for i, p := range ps {
		out[i] = p.String()
	}
	return out
}

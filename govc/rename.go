package main

import (
	"encoding/json"
	"go/types"
	"os"
	"sort"

	"golang.org/x/tools/go/ssa"
)

// Rename tolerance. Contracts name source locals (loop invariants, ghost use in postconditions). A renamed
// local is a harmless edit and must not raise an alarm. /verif/baseline/locals.json records, per function
// under contract, the type of every local its contract names (written by -update-baseline on the unchanged
// tree). When a contract names a local that no longer exists, and exactly one local of the recorded type
// exists that the contract does not name, the old name is bound to it (the run says so in a note). Anything
// else (no candidate, several candidates) is left unresolved and reported as before.

const localsFile = "/verif/baseline/locals.json"

func loadLocalTypes() map[string]map[string]string {
	out := map[string]map[string]string{}
	if d, err := os.ReadFile(localsFile); err == nil {
		json.Unmarshal(d, &out)
	}
	return out
}

// sourceLocals returns the named source variables of a function (not parameters) with their types.
func sourceLocals(fn *ssa.Function) map[string]string {
	out := map[string]string{}
	for _, b := range fn.Blocks {
		for _, ins := range b.Instrs {
			dr, ok := ins.(*ssa.DebugRef)
			if !ok {
				continue
			}
			id := identOf(dr)
			if id == "" || id == "_" {
				continue
			}
			if obj := dr.Object(); obj != nil {
				if _, isVar := obj.(*types.Var); !isVar {
					continue
				}
			}
			t := dr.X.Type()
			if dr.IsAddr {
				if pt, ok := t.Underlying().(*types.Pointer); ok {
					t = pt.Elem()
				}
			}
			if _, seen := out[id]; !seen {
				out[id] = typeName(t)
			}
		}
	}
	for _, p := range fn.Params {
		delete(out, p.Name())
	}
	return out
}

// localRoles classifies each named source variable: "phi" if some reference to it reads a value merged at a
// join (a loop-carried or branch-merged variable), "addr" if it lives in memory, "val" otherwise. Used only to
// choose between several rename candidates of the same type.
func localRoles(fn *ssa.Function) map[string]string {
	out := map[string]string{}
	for _, b := range fn.Blocks {
		for _, ins := range b.Instrs {
			dr, ok := ins.(*ssa.DebugRef)
			if !ok {
				continue
			}
			id := identOf(dr)
			if id == "" || id == "_" {
				continue
			}
			role := "val"
			if dr.IsAddr {
				role = "addr"
			} else if _, isPhi := dr.X.(*ssa.Phi); isPhi {
				role = "phi"
			}
			if cur, seen := out[id]; !seen || (cur == "val" && role != "val") {
				out[id] = role
			}
		}
	}
	return out
}

// contractNames returns the identifiers a contract mentions in invariants and postconditions.
func contractNames(sp *FuncSpec) map[string]bool {
	ids := map[string]bool{}
	if sp == nil {
		return ids
	}
	for _, c := range sp.Invs {
		identsOf(c.E, ids)
	}
	for _, c := range sp.Ensures {
		identsOf(c.E, ids)
	}
	for _, c := range sp.Assumed {
		identsOf(c.E, ids)
	}
	return ids
}

// computeAliases fills u.aliases (old name -> current name) and returns the types of the locals the
// contract names (for the baseline).
func (u *Unit) computeAliases(key string) map[string]string {
	u.aliases = map[string]string{}
	locals := sourceLocals(u.fn)
	named := contractNames(u.spec)
	used := map[string]string{}
	for id := range named {
		if t, ok := locals[id]; ok {
			used[id] = t
		}
	}
	rec := u.eng.localTypes[key]
	recAll := u.eng.localTypes[key+"#all"] // every local the function had on the unchanged tree
	u.allLocals = locals
	roles := localRoles(u.fn)
	u.localRoles = map[string]string{}
	for id := range locals {
		u.localRoles[id] = roles[id]
	}
	recRoles := u.eng.localTypes[key+"#roles"]
	var gone []string
	for id := range rec {
		if _, still := locals[id]; !still && named[id] {
			isParam := false
			for _, p := range u.fn.Params {
				if p.Name() == id {
					isParam = true
				}
			}
			if !isParam {
				gone = append(gone, id)
			}
		}
	}
	sort.Strings(gone)
	taken := map[string]bool{}
	for _, old := range gone {
		var cands []string
		for id, t := range locals {
			if !named[id] && !taken[id] && t == rec[old] {
				if _, known := recAll[id]; !known { // only names that are new in this function
					cands = append(cands, id)
				}
			}
		}
		if len(cands) > 1 && recRoles[old] != "" {
			// several new locals of the type: keep those that play the role the old one played
			var same []string
			for _, id := range cands {
				if roles[id] == recRoles[old] {
					same = append(same, id)
				}
			}
			if len(same) == 1 {
				cands = same
			}
		}
		if len(cands) == 1 {
			u.aliases[old] = cands[0]
			taken[cands[0]] = true
			u.c.Note("rename tolerance: local " + old + " named by the contract no longer exists; bound to " + cands[0] + " (the only new local with that role of type " + rec[old] + ")")
		}
	}
	return used
}

func (u *Unit) applyAliases(names map[string]SVal) {
	for old, cur := range u.aliases {
		if v, ok := names[cur]; ok {
			names[old] = v // the old name no longer exists in the function, so nothing is shadowed
		}
	}
}

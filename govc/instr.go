package main

import (
	"sort"
	"fmt"
	"go/constant"
	"go/token"
	"go/types"
	"math/big"

	"golang.org/x/tools/go/ssa"
)

type bigInt = big.Int

func constantStringVal(c *ssa.Const) string {
	if c.Value.Kind() == constant.String {
		return constant.StringVal(c.Value)
	}
	return c.Value.String()
}

// step executes one instruction; returns false if control does not continue in this block.
func (fr *Frame) step(ins ssa.Instruction, st *State, pc Term) bool {
	u := fr.u
	m := u.m
	if msg, bad := u.eng.interior.badUse[ins]; bad {
		u.unsupportedf("%s (%s)", msg, posString(u.eng.prog, ins.Pos()))
	}
	switch x := ins.(type) {
	case *ssa.DebugRef:
		return true
	case *ssa.Alloc:
		fr.env[x] = u.allocObject(st, x.Type().(*types.Pointer).Elem(), x.Comment)
	case *ssa.BinOp:
		fr.env[x] = fr.binop(x, st, pc)
	case *ssa.UnOp:
		fr.env[x] = fr.unop(x, st, pc)
	case *ssa.Call:
		fr.env[x] = fr.call(x, x.Common(), st, pc)
	case *ssa.ChangeType:
		v := fr.val(x.X)
		if p, ok := v.(PtrV); ok && p.isRoot() {
			if pt, ok := x.Type().Underlying().(*types.Pointer); ok {
				// keep component identity stable across named/unnamed views of the same struct
				_ = pt
			}
		}
		fr.env[x] = v
	case *ssa.ChangeInterface:
		fr.env[x] = fr.val(x.X)
	case *ssa.Convert:
		fr.env[x] = fr.convert(x, st, pc)
	case *ssa.MultiConvert:
		u.unsupportedf("MultiConvert in %s", fr.fn.Name())
		fr.env[x] = m.FreshValue(st, "multiconv", x.Type())
	case *ssa.MakeInterface:
		fr.env[x] = u.makeInterface(st, fr.val(x.X), x.X.Type())
	case *ssa.MakeClosure:
		fv := FuncV{Fn: x.Fn.(*ssa.Function)}
		for _, b := range x.Bindings {
			fv.Bindings = append(fv.Bindings, fr.val(b))
		}
		fr.env[x] = fv
	case *ssa.MakeMap:
		r := m.Alloc(st, "map")
		mt := x.Type().Underlying().(*types.Map)
		u.mapInit(st, mt, r)
		fr.env[x] = Scalar{r}
	case *ssa.MakeChan:
		fr.env[x] = Scalar{m.Alloc(st, "chan")}
	case *ssa.MakeSlice:
		ln := fr.val(x.Len).(Scalar).T
		cp := fr.val(x.Cap).(Scalar).T
		u.oblige(fr, "make-len", x.Pos(), "", pc, And(Le(IntLit(0), ln), Le(ln, cp), Le(cp, IntLit(1<<48))))
		if lim := u.allocLimit(fr, st); lim != nil {
			u.oblige(fr, "bounded-alloc", x.Pos(), "", pc, Le(cp, *lim))
		}
		elem := x.Type().Underlying().(*types.Slice).Elem()
		arr := u.allocArray(st, elem, "mkslice")
		fr.env[x] = SliceV{arr, IntLit(0), ln, cp}
	case *ssa.Slice:
		fr.env[x] = fr.sliceOp(x, st, pc)
	case *ssa.SliceToArrayPointer:
		// (*[N]T)(s): panics unless len(s) >= N; the result designates the first N elements of s. It is modelled
		// as a fresh array object holding those elements (reads are exact; writes through the pointer would not
		// reach the slice - noted)
		sv, okS := fr.val(x.X).(SliceV)
		at, okA := x.Type().Underlying().(*types.Pointer).Elem().Underlying().(*types.Array)
		if okS && okA {
			if _, _, sc := isScalarLeaf(at.Elem()); sc && at.Len() <= 64 {
				n := at.Len()
				u.oblige(fr, "slice-to-array", x.Pos(), "", pc, Ge(sv.Len, IntLit(n)))
				src := PtrV{Base: sv.Arr, Obj: at.Elem(), Arr: true}
				lf := leaves(at.Elem())[0]
				name, _ := compName(src, lf.Path)
				comp := m.comp(st, name, m.compSort(true, lf.Sort))
				oldInner := Select(comp, sv.Arr)
				ni := u.c.Fresh("arrptr", ArrSort(SInt, lf.Sort))
				for i := int64(0); i < n; i++ {
					u.c.Assume(Eq(Select(ni, IntLit(i)), Select(oldInner, ElemIdx(sv.Off, IntLit(i)))))
				}
				arr := m.Alloc(st, "arrptr")
				dst := PtrV{Base: arr, Obj: at.Elem(), Arr: true}
				m.StoreVal(st, dst, Scalar{ni})
				u.c.Note("slice-to-array-pointer conversion modelled as a copy of the first N elements")
				fr.env[x] = dst
				return true
			}
		}
		u.unsupportedf("SliceToArrayPointer in %s", fr.fn.Name())
		fr.env[x] = m.FreshValue(st, "s2ap", x.Type())
	case *ssa.FieldAddr:
		p, ok := fr.val(x.X).(PtrV)
		if !ok {
			u.unsupportedf("FieldAddr on non-pointer in %s", fr.fn.Name())
			fr.env[x] = m.FreshValue(st, "fa", x.Type())
			return true
		}
		if p.isRoot() {
			u.oblige(fr, "nil-deref", x.Pos(), "", pc, Ne(p.Base, IntLit(0)))
		}
		if p.Arr && p.Idx == nil {
			u.unsupportedf("FieldAddr through pointer to array in %s", fr.fn.Name())
		}
		q := p
		q.Path = append(append([]int{}, p.Path...), x.Field)
		fr.env[x] = q
	case *ssa.Field:
		v := fr.val(x.X)
		if sv, ok := v.(StructV); ok {
			fr.env[x] = sv.F[x.Field]
		} else {
			u.unsupportedf("Field on %T in %s", v, fr.fn.Name())
			fr.env[x] = m.FreshValue(st, "field", x.Type())
		}
	case *ssa.IndexAddr:
		fr.env[x] = fr.indexAddr(x, st, pc)
	case *ssa.Index:
		fr.env[x] = fr.indexOp(x, st, pc)
	case *ssa.Lookup:
		fr.env[x] = fr.lookup(x, st, pc)
	case *ssa.MapUpdate:
		mv := fr.val(x.Map).(Scalar).T
		u.oblige(fr, "nil-map-write", x.Pos(), "", pc, Ne(mv, IntLit(0)))
		mt := x.Map.Type().Underlying().(*types.Map)
		u.frameCheckMap(fr, pc, mt, mv, x.Pos())
		u.mapStore(st, mt, mv, fr.val(x.Key), fr.val(x.Value))
	case *ssa.Range:
		fr.env[x] = fr.rangeInit(x, st)
	case *ssa.Next:
		fr.env[x] = fr.rangeNext(x, st, pc)
	case *ssa.Select:
		// nondeterministic choice; received values are fresh
		idx := u.c.Fresh("select_idx", SInt)
		n := int64(len(x.States))
		lo := IntLit(0)
		if !x.Blocking {
			lo = IntLit(-1)
		}
		u.c.Assume(And(Le(lo, idx), Lt(idx, IntLit(n))))
		tv := TupleV{V: []Value{Scalar{idx}, Scalar{u.c.Fresh("select_ok", SBool)}}}
		tt := x.Type().(*types.Tuple)
		for i := 2; i < tt.Len(); i++ {
			tv.V = append(tv.V, m.FreshValue(st, "select_recv", tt.At(i).Type()))
		}
		fr.env[x] = tv
		// ghost counter of channel sends (see *ssa.Send): a select performs the send of the chosen case only
		for i, sc := range x.States {
			if sc.Dir == types.SendOnly {
				cur, ok := st.ghost["chansends"]
				if !ok {
					cur = u.ghostInit("chansends")
				}
				st.ghost["chansends"] = u.c.Def("chansends", Add(cur, Ite(Eq(idx, IntLit(int64(i))), IntLit(1), IntLit(0))))
			}
		}
	case *ssa.TypeAssert:
		fr.env[x] = fr.typeAssert(x, st, pc)
	case *ssa.Extract:
		tv, ok := fr.val(x.Tuple).(TupleV)
		if !ok || x.Index >= len(tv.V) {
			u.unsupportedf("Extract from %T in %s", fr.val(x.Tuple), fr.fn.Name())
			fr.env[x] = m.FreshValue(st, "extract", x.Type())
		} else {
			fr.env[x] = tv.V[x.Index]
		}
	case *ssa.Store:
		p, ok := fr.val(x.Addr).(PtrV)
		if !ok {
			u.unsupportedf("Store through %T in %s", fr.val(x.Addr), fr.fn.Name())
			return true
		}
		if p.isRoot() {
			u.oblige(fr, "nil-deref", x.Pos(), "", pc, Ne(p.Base, IntLit(0)))
		}
		u.frameCheck(fr, st, pc, p, x.Pos())
		sv := fr.val(x.Val)
		if fa, ok := x.Addr.(*ssa.FieldAddr); ok && u.eng.interior.tainted[fieldKey(fa)] {
			if ip, ok := sv.(PtrV); ok && !ip.isRoot() && !ip.Arr {
				// interior pointer stored in a tainted field: a fresh non-nil object stands for it (see interior.go)
				sv = PtrV{Base: m.Alloc(st, "interior"), Obj: x.Val.Type().Underlying().(*types.Pointer).Elem()}
				u.extUsed["A-interior: loads through "+fieldKey(fa)+" return an arbitrary value (the field holds the address of another object's field)"] = true
			}
		}
		m.StoreVal(st, p, sv)
	case *ssa.Send:
		// channel send: no heap effect; counted in the ghost counter ghost("chansends"), so that a contract can say
		// "this function queues its argument on every path" (channels themselves are not modelled)
		cur, ok := st.ghost["chansends"]
		if !ok {
			cur = u.ghostInit("chansends")
		}
		st.ghost["chansends"] = u.c.Def("chansends", Add(cur, IntLit(1)))
	case *ssa.Go:
		u.unsupportedf("go statement in %s", fr.fn.Name())
	case *ssa.Defer:
		d := deferred{call: x.Common(), pc: pc, pos: x.Pos()}
		if !x.Call.IsInvoke() {
			d.fnv = fr.val(x.Call.Value)
		} else {
			d.fnv = fr.val(x.Call.Value)
		}
		for _, a := range x.Call.Args {
			d.args = append(d.args, fr.val(a))
		}
		fr.deferSt = append(fr.deferSt, d)
	case *ssa.RunDefers:
		for i := len(fr.deferSt) - 1; i >= 0; i-- {
			d := fr.deferSt[i]
			fr.callValues(nil, d.call, d.fnv, d.args, st, And(pc, d.pc), d.pos)
		}
	case *ssa.Jump:
		return true
	case *ssa.If:
		c, ok := fr.val(x.Cond).(Scalar)
		if !ok {
			fr.brCond[fr.curBlk] = u.c.Fresh("cond", SBool)
		} else {
			fr.brCond[fr.curBlk] = u.c.Def("br", c.T)
		}
		return true
	case *ssa.Return:
		var vals []Value
		for _, r := range x.Results {
			vals = append(vals, fr.val(r))
		}
		fr.rets = append(fr.rets, retPoint{blk: fr.curBlk, pc: pc, st: st.clone(), vals: vals})
		return false
	case *ssa.Panic:
		if !(fr.u.spec != nil && fr.u.spec.MayPanic) {
			u.oblige(fr, "unreachable-panic", x.Pos(), "", pc, TFalse)
		}
		return false
	default:
		u.unsupportedf("instruction %T in %s", ins, fr.fn.Name())
		if v, ok := ins.(ssa.Value); ok {
			fr.env[v] = m.FreshValue(st, "unk", v.Type())
		}
	}
	return true
}

func (u *Unit) allocObject(st *State, t types.Type, comment string) Value {
	m := u.m
	r := m.Alloc(st, "obj")
	if a, ok := t.Underlying().(*types.Array); ok {
		p := PtrV{Base: r, Obj: a.Elem(), Arr: true}
		u.zeroArray(st, a.Elem(), r)
		return p
	}
	p := PtrV{Base: r, Obj: t}
	if len(leaves(t)) > 0 {
		m.StoreVal(st, p, m.ZeroValue(t))
	}
	// the ghost abstraction (hfn) of a freshly allocated, zero-valued object is 0: a new big.Int is 0, a new
	// bytes.Buffer has no data, a new key object holds no point
	var hnames []string
	for name, h := range u.eng.specs.HFns {
		if h.Ret == SInt {
			hnames = append(hnames, name)
		}
	}
	sort.Strings(hnames)
	for _, name := range hnames {
		comp := m.comp(st, "G|"+name, ArrSort(SInt, SInt))
		u.c.Assume(Eq(Select(comp, r), IntLit(0)))
	}
	return p
}

// allocArray allocates a zeroed backing array for elements of type elem.
func (u *Unit) allocArray(st *State, elem types.Type, prefix string) Term {
	r := u.m.Alloc(st, prefix)
	u.zeroArray(st, elem, r)
	return r
}

func (u *Unit) zeroArray(st *State, elem types.Type, r Term) {
	m := u.m
	p := PtrV{Base: r, Obj: elem, Arr: true}
	zv := m.flattenZero(elem)
	for i, lf := range leaves(elem) {
		name, _ := compName(p, lf.Path)
		comp := m.comp(st, name, m.compSort(true, lf.Sort))
		inner := ArrSort(SInt, lf.Sort)
		z := zv[i]
		var ct Term
		if z.S == "" {
			ct = u.c.Fresh("zeroarr", inner)
		} else if lf.Sort == SStr {
			// a constant array over an uninterpreted constant is not portable SMT-LIB: state it pointwise
			ct = u.c.Fresh("zeroarr", inner)
			u.c.Raw(fmt.Sprintf("(assert (forall ((i Int)) (! (= (select %s i) %s) :pattern ((select %s i)))))", ct.S, z.S, ct.S))
		} else {
			ct = Term{fmt.Sprintf("((as const %s) %s)", inner, z.S), inner}
		}
		st.heap[name] = u.c.Def(name, Store(comp, r, ct))
	}
}

func (m *Mem) flattenZero(t types.Type) []Term {
	lfs := leaves(t)
	out := make([]Term, len(lfs))
	for i, lf := range lfs {
		switch lf.Sort {
		case SInt:
			out[i] = IntLit(0)
		case SBool:
			out[i] = TFalse
		case SStr:
			out[i] = m.c.StrLit("")
		default:
			if lf.Kind == "fixarr" {
				el := arrValSort(lf.Sort)
				if el == SInt {
					out[i] = Term{fmt.Sprintf("((as const %s) 0)", lf.Sort), lf.Sort}
				} else if el == SBool {
					out[i] = Term{fmt.Sprintf("((as const %s) false)", lf.Sort), lf.Sort}
				}
			}
		}
	}
	return out
}

func (u *Unit) makeInterface(st *State, v Value, t types.Type) Value {
	m := u.m
	tag := IntLit(m.typeID(t))
	switch x := v.(type) {
	case PtrV:
		if x.isRoot() || (x.Arr && x.Idx == nil && len(x.Path) == 0) {
			return IfaceV{tag, x.Base}
		}
		u.c.Note("interior pointer boxed into interface: identity abstracted")
		return IfaceV{tag, u.c.Fresh("boxptr", SInt)}
	case IfaceV:
		return x
	}
	// box a non-pointer value: payload is a fresh id whose unboxing yields the value
	pay := u.c.Fresh("box", SInt)
	u.c.Assume(Gt(pay, IntLit(0)))
	lfs := leaves(t)
	terms := m.flatten(t, v)
	for i, lf := range lfs {
		fn := fmt.Sprintf("unbox_%d_%d", m.typeID(t), i)
		u.c.DeclFun(fn, []Sort{SInt}, lf.Sort)
		u.c.Assume(Eq(app(lf.Sort, fn, pay), terms[i]))
	}
	return IfaceV{tag, pay}
}

func (u *Unit) unbox(st *State, pay Term, t types.Type) Value {
	m := u.m
	if pt, ok := t.Underlying().(*types.Pointer); ok {
		return m.ptrFromTerm(pay, pt.Elem())
	}
	lfs := leaves(t)
	terms := make([]Term, len(lfs))
	for i, lf := range lfs {
		fn := fmt.Sprintf("unbox_%d_%d", m.typeID(t), i)
		u.c.DeclFun(fn, []Sort{SInt}, lf.Sort)
		terms[i] = u.c.Def("unbox", app(lf.Sort, fn, pay))
		m.assumeLeafType(st, terms[i], lf.T, lf.Kind)
	}
	if len(lfs) == 0 {
		return StructV{}
	}
	v, _ := m.unflatten(t, terms)
	m.assumeValueShape(st, v, t)
	return v
}

func (fr *Frame) typeAssert(x *ssa.TypeAssert, st *State, pc Term) Value {
	u := fr.u
	iv, ok := fr.val(x.X).(IfaceV)
	if !ok {
		u.unsupportedf("TypeAssert on %T in %s", fr.val(x.X), fr.fn.Name())
		return u.m.FreshValue(st, "ta", x.Type())
	}
	var okT Term
	var res Value
	if _, isIface := x.AssertedType.Underlying().(*types.Interface); isIface {
		// assertion to an interface type: succeeds for non-nil values whose dynamic type implements it
		if id, isLit := litVal(iv.Tag); isLit && id.Sign() > 0 {
			dt := u.m.tidTyp[id.Int64()]
			if types.Implements(dt, x.AssertedType.Underlying().(*types.Interface)) {
				okT = TTrue
			} else {
				okT = TFalse
			}
		} else {
			okT = u.c.Fresh("implements", SBool)
			u.c.Assume(Imp(okT, Ne(iv.Tag, IntLit(0))))
		}
		res = iv
	} else {
		okT = Eq(iv.Tag, IntLit(u.m.typeID(x.AssertedType)))
		res = u.unbox(st, iv.Pay, x.AssertedType)
	}
	if x.CommaOk {
		if _, isIface := x.AssertedType.Underlying().(*types.Interface); !isIface {
			// on failure the result is the zero value
			zv := u.m.ZeroValue(x.AssertedType)
			if mv, ok := u.m.mergeValues(okT, res, zv, x.AssertedType); ok {
				res = mv
			}
		}
		return TupleV{V: []Value{res, Scalar{u.c.Def("taok", okT)}}}
	}
	u.oblige(fr, "type-assert", x.Pos(), "", pc, okT)
	return res
}

func (fr *Frame) binop(x *ssa.BinOp, st *State, pc Term) Value {
	u := fr.u
	a, b := fr.val(x.X), fr.val(x.Y)
	t := x.X.Type()
	switch x.Op {
	case token.EQL, token.NEQ:
		e := u.valuesEqual(st, a, b, t, x.Y.Type())
		if x.Op == token.NEQ {
			e = Not(e)
		}
		return Scalar{e}
	}
	as, aok := a.(Scalar)
	bs, bok := b.(Scalar)
	if !aok || !bok {
		u.unsupportedf("binop %s on %T in %s", x.Op, a, fr.fn.Name())
		return u.m.FreshValue(st, "binop", x.Type())
	}
	if as.T.Sort == SBool {
		switch x.Op {
		case token.AND, token.LAND:
			return Scalar{And(as.T, bs.T)}
		case token.OR, token.LOR:
			return Scalar{Or(as.T, bs.T)}
		case token.XOR:
			return Scalar{Ne(as.T, bs.T)}
		}
	}
	if as.T.Sort == SStr {
		switch x.Op {
		case token.ADD:
			u.c.DeclFun("str_cat", []Sort{SStr, SStr}, SStr)
			r := u.c.Def("cat", app(SStr, "str_cat", as.T, bs.T))
			u.c.Assume(Eq(app(SInt, "strlen", r), Add(app(SInt, "strlen", as.T), app(SInt, "strlen", bs.T))))
			return Scalar{r}
		case token.LSS, token.LEQ, token.GTR, token.GEQ:
			u.c.DeclFun("str_lt", []Sort{SStr, SStr}, SBool)
			lt := app(SBool, "str_lt", as.T, bs.T)
			gt := app(SBool, "str_lt", bs.T, as.T)
			switch x.Op {
			case token.LSS:
				return Scalar{lt}
			case token.GTR:
				return Scalar{gt}
			case token.LEQ:
				return Scalar{Not(gt)}
			default:
				return Scalar{Not(lt)}
			}
		}
	}
	if as.T.Sort != SInt {
		u.unsupportedf("binop %s on sort %s in %s", x.Op, as.T.Sort, fr.fn.Name())
		return u.m.FreshValue(st, "binop", x.Type())
	}
	A, B := as.T, bs.T
	rt := x.Type()
	switch x.Op {
	case token.ADD:
		r := Add(A, B)
		u.overflowCheck(fr, x, pc, r, rt)
		return Scalar{u.c.Def("add", wrapTo(r, rt))}
	case token.SUB:
		r := Sub(A, B)
		u.overflowCheck(fr, x, pc, r, rt)
		return Scalar{u.c.Def("sub", wrapTo(r, rt))}
	case token.MUL:
		r := Mul(A, B)
		u.overflowCheck(fr, x, pc, r, rt)
		return Scalar{u.c.Def("mul", wrapTo(r, rt))}
	case token.QUO:
		u.oblige(fr, "div-zero", x.Pos(), "", pc, Ne(B, IntLit(0)))
		_, signed, _ := intBits(rt)
		if signed {
			return Scalar{u.c.Def("quo", wrapTo(app(SInt, "godiv", A, B), rt))}
		}
		return Scalar{u.c.Def("quo", app(SInt, "div", A, B))}
	case token.REM:
		u.oblige(fr, "div-zero", x.Pos(), "", pc, Ne(B, IntLit(0)))
		_, signed, _ := intBits(rt)
		if signed {
			return Scalar{u.c.Def("rem", app(SInt, "gorem", A, B))}
		}
		return Scalar{u.c.Def("rem", app(SInt, "mod", A, B))}
	case token.LSS:
		return Scalar{Lt(A, B)}
	case token.LEQ:
		return Scalar{Le(A, B)}
	case token.GTR:
		return Scalar{Gt(A, B)}
	case token.GEQ:
		return Scalar{Ge(A, B)}
	case token.SHL:
		if k, ok := litVal(B); ok && k.IsUint64() && k.Uint64() < 256 {
			return Scalar{u.c.Def("shl", wrapTo(Mul(A, BigLit(pow2(uint(k.Uint64())))), rt))}
		}
	case token.SHR:
		if k, ok := litVal(B); ok && k.IsUint64() && k.Uint64() < 256 {
			// arithmetic shift = floor division
			return Scalar{u.c.Def("shr", app(SInt, "div", A, BigLit(pow2(uint(k.Uint64())))))}
		}
	case token.AND:
		// x & (2^k - 1) with non-negative x
		if k, ok := litVal(B); ok && k.Sign() >= 0 {
			kk := new(big.Int).Add(k, big.NewInt(1))
			if kk.BitLen() > 0 && new(big.Int).And(kk, k).Sign() == 0 {
				if _, signed, _ := intBits(rt); !signed {
					return Scalar{u.c.Def("and", app(SInt, "mod", A, BigLit(kk)))}
				}
			}
		}
	}
	// uninterpreted bit operation with range typing
	bits, _, _ := intBits(rt)
	fn := fmt.Sprintf("bitop_%s_%d", sanitize(x.Op.String()), bits)
	opName := map[token.Token]string{token.AND: "and", token.OR: "or", token.XOR: "xor", token.SHL: "shl", token.SHR: "shr", token.AND_NOT: "andnot"}[x.Op]
	if opName == "" {
		u.unsupportedf("binop %s in %s", x.Op, fr.fn.Name())
		return u.m.FreshValue(st, "binop", rt)
	}
	fn = fmt.Sprintf("bitop_%s_%d", opName, bits)
	u.c.DeclFun(fn, []Sort{SInt, SInt}, SInt)
	r := u.c.Def("bitop", app(SInt, fn, A, B))
	u.m.assumeLeafType(st, r, rt, "int")
	u.c.Note("bit operation " + x.Op.String() + " abstracted as uninterpreted function with range typing")
	return Scalar{r}
}

// overflowCheck emits an overflow obligation when the unit's contract asks for it.
func (u *Unit) overflowCheck(fr *Frame, x *ssa.BinOp, pc Term, r Term, t types.Type) {
	if u.spec == nil || u.spec.Opts["overflow"] != "check" {
		return
	}
	if fr.fn != u.fn {
		return
	}
	if lo, hi, ok := intRange(t); ok {
		u.oblige(fr, "overflow", x.Pos(), "", pc, And(Le(lo, r), Le(r, hi)))
	}
}

func (u *Unit) valuesEqual(st *State, a, b Value, ta, tb types.Type) Term {
	switch x := a.(type) {
	case Scalar:
		switch y := b.(type) {
		case Scalar:
			if x.T.Sort != y.T.Sort {
				u.unsupportedf("comparison of sorts %s and %s", x.T.Sort, y.T.Sort)
				return u.c.Fresh("eq", SBool)
			}
			return Eq(x.T, y.T)
		case PtrV:
			return Eq(x.T, y.Base)
		case FuncV:
			return Eq(x.T, IntLit(0)) // func compared with nil only
		}
	case PtrV:
		switch y := b.(type) {
		case PtrV:
			if x.isRoot() && y.isRoot() || (x.Arr && y.Arr && x.Idx == nil && y.Idx == nil) {
				return Eq(x.Base, y.Base)
			}
			if !x.isRoot() && y.isRoot() {
				if y.Base.S == "0" {
					return TFalse
				}
			}
			if x.isRoot() && !y.isRoot() && x.Base.S == "0" {
				return TFalse
			}
			u.unsupportedf("comparison of interior pointers")
			return u.c.Fresh("ptreq", SBool)
		case Scalar:
			return Eq(x.Base, y.T)
		}
	case SliceV:
		// only comparison with nil is legal
		return Eq(x.Arr, IntLit(0))
	case IfaceV:
		switch y := b.(type) {
		case IfaceV:
			return And(Eq(x.Tag, y.Tag), Eq(x.Pay, y.Pay))
		}
	case StructV:
		y, ok := b.(StructV)
		if ok {
			stt := ta.Underlying().(*types.Struct)
			var cs []Term
			for i := range x.F {
				cs = append(cs, u.valuesEqual(st, x.F[i], y.F[i], stt.Field(i).Type(), stt.Field(i).Type()))
			}
			return And(cs...)
		}
	case FuncV:
		if x.Fn != nil {
			return TFalse // a known function is never nil
		}
		return Eq(x.Opaque, IntLit(0))
	}
	if sb, ok := b.(SliceV); ok {
		return Eq(sb.Arr, IntLit(0))
	}
	if fb, ok := b.(FuncV); ok {
		if fb.Fn != nil {
			return TFalse
		}
	}
	u.unsupportedf("comparison of %T and %T", a, b)
	return u.c.Fresh("eq", SBool)
}

func (fr *Frame) unop(x *ssa.UnOp, st *State, pc Term) Value {
	u := fr.u
	switch x.Op {
	case token.MUL: // load
		if g, ok := x.X.(*ssa.Global); ok {
			if v, ok := u.globalConst(g, st); ok {
				return v
			}
		}
		p, ok := fr.val(x.X).(PtrV)
		if !ok {
			u.unsupportedf("load through %T in %s", fr.val(x.X), fr.fn.Name())
			return u.m.FreshValue(st, "load", x.Type())
		}
		if u.eng.interior.loadOfTainted(x.X) {
			// the pointer may designate a field of another object: any value of the type may be read
			u.oblige(fr, "nil-deref", x.Pos(), "", pc, Ne(p.Base, IntLit(0)))
			return u.m.FreshValue(st, "interiorload", x.Type())
		}
		if p.isRoot() {
			u.oblige(fr, "nil-deref", x.Pos(), "", pc, Ne(p.Base, IntLit(0)))
		}
		return u.m.Load(st, p)
	case token.NOT:
		return Scalar{Not(fr.val(x.X).(Scalar).T)}
	case token.SUB:
		s, ok := fr.val(x.X).(Scalar)
		if !ok || s.T.Sort != SInt {
			return u.m.FreshValue(st, "neg", x.Type())
		}
		return Scalar{u.c.Def("neg", wrapTo(Sub(IntLit(0), s.T), x.Type()))}
	case token.XOR:
		s := fr.val(x.X).(Scalar)
		bits, signed, ok := intBits(x.Type())
		if !ok {
			return u.m.FreshValue(st, "bitnot", x.Type())
		}
		if signed {
			return Scalar{Sub(Sub(IntLit(0), s.T), IntLit(1))}
		}
		return Scalar{Sub(BigLit(new(big.Int).Sub(pow2(bits), big.NewInt(1))), s.T)}
	case token.ARROW:
		if x.CommaOk {
			return TupleV{V: []Value{u.m.FreshValue(st, "recv", x.Type().(*types.Tuple).At(0).Type()), Scalar{u.c.Fresh("recvok", SBool)}}}
		}
		return u.m.FreshValue(st, "recv", x.Type())
	}
	u.unsupportedf("unop %s in %s", x.Op, fr.fn.Name())
	return u.m.FreshValue(st, "unop", x.Type())
}

// globalConst: immutable-by-convention globals of dependencies (sentinel errors) are constants.
func (u *Unit) globalConst(g *ssa.Global, st *State) (Value, bool) {
	elem := g.Type().(*types.Pointer).Elem()
	if c, ok := u.eng.constGlobals[g]; ok {
		u.extUsed["A-globals: "+g.String()+" is only assigned its initial constant in the loaded packages"] = true
		return u.constValue(c), true
	}
	if _, ok := elem.Underlying().(*types.Interface); ok && typeName(elem) == "error" {
		if g.Pkg != nil && !isRepoPkg(g.Pkg.Pkg.Path()) || (len(g.Name()) > 3 && (g.Name()[:3] == "Err" || g.Name()[:3] == "err")) {
			globalMu.Lock()
			id, ok := u.eng.globalIDs[g]
			if !ok {
				id = int64(len(u.eng.globalIDs) + 1)
				u.eng.globalIDs[g] = id
			}
			globalMu.Unlock()
			tag := u.m.typeID(types.NewNamed(types.NewTypeName(token.NoPos, nil, "sentinelError", nil), types.NewStruct(nil, nil), nil))
			return IfaceV{IntLit(tag), IntLit(id)}, true
		}
	}
	return nil, false
}

func (fr *Frame) convert(x *ssa.Convert, st *State, pc Term) Value {
	u := fr.u
	v := fr.val(x.X)
	from, to := x.X.Type(), x.Type()
	_, _, fromInt := intBits(from)
	_, _, toInt := intBits(to)
	if fb, ok := from.Underlying().(*types.Basic); ok && fb.Info()&types.IsInteger != 0 {
		fromInt = true
	}
	switch {
	case fromInt && toInt:
		s := v.(Scalar)
		if fbits, fsigned, ok := intBits(from); ok {
			tbits, tsigned, _ := intBits(to)
			// widening without sign change needs no wrap
			if fsigned == tsigned && tbits >= fbits {
				return s
			}
			if !fsigned && tsigned && tbits > fbits {
				return s
			}
		}
		return Scalar{u.c.Def("conv", wrapTo(s.T, to))}
	}
	_, toSlice := to.Underlying().(*types.Slice)
	_, fromSlice := from.Underlying().(*types.Slice)
	tb, _ := to.Underlying().(*types.Basic)
	fb, _ := from.Underlying().(*types.Basic)
	switch {
	case toSlice && fb != nil && fb.Info()&types.IsString != 0:
		// []byte(s): fresh array with the string's bytes
		s := v.(Scalar).T
		ln := app(SInt, "strlen", s)
		arr := u.m.Alloc(st, "str2bytes")
		comp := u.m.comp(st, "E|uint8|", u.m.compSort(true, SInt))
		inner := u.c.Fresh("strbytes", SArrI)
		if u.preciseContent() {
			u.c.Raw(fmt.Sprintf("(assert (forall ((i Int)) (! (=> (and (<= 0 i) (< i %s)) (= (select %s i) (str_at %s i))) :pattern ((select %s i)))))", ln.S, inner.S, s.S, inner.S))
		}
		st.heap["E|uint8|"] = u.c.Def("E_uint8", Store(comp, arr, inner))
		sv := SliceV{arr, IntLit(0), ln, ln}
		u.c.Assume(Eq(u.m.bytesContent(st, sv), app(SByt, "str_bytes", s)))
		return sv
	case fromSlice && tb != nil && tb.Info()&types.IsString != 0:
		sv := v.(SliceV)
		r := u.c.Def("bytes2str", app(SStr, "bytes_str", u.m.bytesContent(st, sv)))
		u.c.Assume(Eq(app(SInt, "strlen", r), sv.Len))
		return Scalar{r}
	case fromInt && tb != nil && tb.Info()&types.IsString != 0:
		r := u.c.Fresh("rune2str", SStr)
		u.c.Assume(Le(IntLit(0), app(SInt, "strlen", r)))
		return Scalar{r}
	}
	if tb != nil && fb != nil && (tb.Info()&types.IsFloat != 0 || fb.Info()&types.IsFloat != 0) {
		u.c.Note("floating point conversion abstracted")
		return u.m.FreshValue(st, "fconv", to)
	}
	if _, ok := to.Underlying().(*types.Pointer); ok {
		return v
	}
	if tb != nil && tb.Kind() == types.UnsafePointer {
		u.unsupportedf("unsafe.Pointer conversion in %s", fr.fn.Name())
	}
	return v
}

func (fr *Frame) sliceOp(x *ssa.Slice, st *State, pc Term) Value {
	u := fr.u
	v := fr.val(x.X)
	get := func(e ssa.Value) *Term {
		if e == nil {
			return nil
		}
		t := fr.val(e).(Scalar).T
		return &t
	}
	lo, hi, mx := get(x.Low), get(x.High), get(x.Max)
	switch s := v.(type) {
	case SliceV:
		l := IntLit(0)
		if lo != nil {
			l = *lo
		}
		h := s.Len
		if hi != nil {
			h = *hi
		}
		c := s.Cap
		if mx != nil {
			c = *mx
		}
		u.oblige(fr, "slice", x.Pos(), "", pc, And(Le(IntLit(0), l), Le(l, h), Le(h, c), Le(c, s.Cap)))
		return SliceV{s.Arr, u.c.Def("off", Add(s.Off, l)), u.c.Def("len", Sub(h, l)), u.c.Def("cap", Sub(c, l))}
	case PtrV:
		// *[N]T -> slice
		if s.Arr && s.Idx == nil {
			n := arrayLenOfPtr(x.X.Type())
			l := IntLit(0)
			if lo != nil {
				l = *lo
			}
			h := IntLit(n)
			if hi != nil {
				h = *hi
			}
			c := IntLit(n)
			if mx != nil {
				c = *mx
			}
			u.oblige(fr, "nil-deref", x.Pos(), "", pc, Ne(s.Base, IntLit(0)))
			u.oblige(fr, "slice", x.Pos(), "", pc, And(Le(IntLit(0), l), Le(l, h), Le(h, c), Le(c, IntLit(n))))
			return SliceV{s.Base, l, Sub(h, l), Sub(c, l)}
		}
		// slicing an interior fixed array (e.g. x.hash[:]): copy-free view is not expressible; make a
		// fresh array object holding the same contents and note the abstraction
		if at, ok := s.pointee().Underlying().(*types.Array); ok {
			if _, _, sc := isScalarLeaf(at.Elem()); sc {
				val := u.m.Load(st, s).(Scalar).T
				arr := u.m.Alloc(st, "arrview")
				p := PtrV{Base: arr, Obj: at.Elem(), Arr: true}
				u.m.StoreVal(st, p, Scalar{val})
				u.c.Note("slice of interior fixed array modelled as a copy (writes through the slice are not reflected)")
				n := at.Len()
				l := IntLit(0)
				if lo != nil {
					l = *lo
				}
				h := IntLit(n)
				if hi != nil {
					h = *hi
				}
				u.oblige(fr, "slice", x.Pos(), "", pc, And(Le(IntLit(0), l), Le(l, h), Le(h, IntLit(n))))
				return SliceV{arr, l, Sub(h, l), Sub(IntLit(n), l)}
			}
		}
	case Scalar:
		if s.T.Sort == SStr {
			ln := app(SInt, "strlen", s.T)
			l := IntLit(0)
			if lo != nil {
				l = *lo
			}
			h := ln
			if hi != nil {
				h = *hi
			}
			u.oblige(fr, "slice", x.Pos(), "", pc, And(Le(IntLit(0), l), Le(l, h), Le(h, ln)))
			u.c.DeclFun("str_sub", []Sort{SStr, SInt, SInt}, SStr)
			r := u.c.Def("substr", app(SStr, "str_sub", s.T, l, h))
			u.c.Assume(Imp(And(Le(IntLit(0), l), Le(l, h), Le(h, ln)), Eq(app(SInt, "strlen", r), Sub(h, l))))
			return Scalar{r}
		}
	}
	u.unsupportedf("slice of %T in %s", v, fr.fn.Name())
	return u.m.FreshValue(st, "slice", x.Type())
}

func arrayLenOfPtr(t types.Type) int64 {
	if p, ok := t.Underlying().(*types.Pointer); ok {
		if a, ok := p.Elem().Underlying().(*types.Array); ok {
			return a.Len()
		}
	}
	return 0
}

func (fr *Frame) indexAddr(x *ssa.IndexAddr, st *State, pc Term) Value {
	u := fr.u
	v := fr.val(x.X)
	idx := fr.val(x.Index).(Scalar).T
	switch s := v.(type) {
	case SliceV:
		u.oblige(fr, "index", x.Pos(), "", pc, And(Le(IntLit(0), idx), Lt(idx, s.Len)))
		i := u.c.Def("idx", ElemIdx(s.Off, idx))
		elem := x.X.Type().Underlying().(*types.Slice).Elem()
		return PtrV{Base: s.Arr, Obj: elem, Arr: true, Idx: &i}
	case PtrV:
		if s.Arr && s.Idx == nil && len(s.Path) == 0 {
			n := arrayLenOfPtr(x.X.Type())
			u.oblige(fr, "nil-deref", x.Pos(), "", pc, Ne(s.Base, IntLit(0)))
			u.oblige(fr, "index", x.Pos(), "", pc, And(Le(IntLit(0), idx), Lt(idx, IntLit(n))))
			q := s
			q.Idx = &idx
			return q
		}
		if at, ok := s.pointee().Underlying().(*types.Array); ok && s.Sub == nil {
			u.oblige(fr, "index", x.Pos(), "", pc, And(Le(IntLit(0), idx), Lt(idx, IntLit(at.Len()))))
			q := s
			q.Sub = &idx
			return q
		}
	}
	u.unsupportedf("IndexAddr on %T in %s", v, fr.fn.Name())
	return u.m.FreshValue(st, "ia", x.Type())
}

func (fr *Frame) indexOp(x *ssa.Index, st *State, pc Term) Value {
	u := fr.u
	v := fr.val(x.X)
	idx := fr.val(x.Index).(Scalar).T
	switch t := x.X.Type().Underlying().(type) {
	case *types.Array:
		u.oblige(fr, "index", x.Pos(), "", pc, And(Le(IntLit(0), idx), Lt(idx, IntLit(t.Len()))))
		if s, ok := v.(Scalar); ok {
			r := u.c.Def("aidx", Select(s.T, idx))
			u.m.assumeLeafType(st, r, t.Elem(), "int")
			return Scalar{r}
		}
	case *types.Basic: // string
		s := v.(Scalar).T
		u.oblige(fr, "index", x.Pos(), "", pc, And(Le(IntLit(0), idx), Lt(idx, app(SInt, "strlen", s))))
		r := u.c.Def("sidx", app(SInt, "str_at", s, idx))
		u.c.Assume(And(Le(IntLit(0), r), Le(r, IntLit(255))))
		return Scalar{r}
	}
	u.unsupportedf("Index on %T in %s", v, fr.fn.Name())
	return u.m.FreshValue(st, "index", x.Type())
}

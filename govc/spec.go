package main

// Contract language: Gobra-flavoured `//@` lines in comment-only Go files (build tag verif) next to
// the code, plus /verif/contracts/externals.vspec for dependencies. See DESIGN.md section 4.

import (
	"fmt"
	"math/big"
	"os"
	"strings"
	"unicode"
)

type SExpr interface{}

type (
	SIdent  struct{ Name string }
	SIntLit struct{ V *big.Int }
	SBoolLit struct{ V bool }
	SNil    struct{}
	SStrLit struct{ V string }
	SSel    struct {
		X    SExpr
		Name string
	}
	SIndex struct{ X, I SExpr }
	SCall  struct {
		Fn   string
		Args []SExpr
	}
	SUnary struct {
		Op string
		X  SExpr
	}
	SBinary struct {
		Op   string
		X, Y SExpr
	}
	SQuant struct {
		Forall bool
		Vars   []string
		Sorts  []string
		Body   SExpr
	}
)

type Clause struct {
	Kind string // requires ensures invariant decreases assigns
	Text string
	E    SExpr
	Line int
	File string
	Loop int // invariant@N: only for the N-th loop of the function (0: placed by name resolution)
}

type FuncSpec struct {
	Key      string // function key within package, or full name for externals
	Pkg      string // package path ("" for externals)
	Params   []string
	Results  []string
	Requires []Clause
	Ensures  []Clause
	Assumed  []Clause // trusted postcondition clauses (not checked in the body; listed as assumptions)
	Invs     []Clause
	Assigns  []string
	HasAssigns bool
	Trusted  bool // body not verified: assumed contract
	MayPanic bool
	Pure     bool // assigns nothing, result is a function of args (externals)
	NoBody   bool
	Opts     map[string]string
	File     string
	Line     int
	Lemma    bool
	Events   []EventClause
}

// EventClause: calling the function IS the ghost event `Name(Args...)`: it is appended to the ghost
// trace of that name at every call site (definitional, nothing to verify in the body).
type EventClause struct {
	Name string
	Args []SExpr
	Text string
	When SExpr // optional condition over parameters and results: the event is recorded only when it holds
}

type PredDef struct {
	Name   string
	Params []string
	Body   SExpr
	Text   string
}

// RecFn is a recursive specification function: recfn name(a Sort, b Sort) Sort := body
type RecFn struct {
	Name   string
	Params []string
	Sorts  []Sort
	Ret    Sort
	Body   SExpr
	Text   string
}

type UFn struct {
	Name string
	Args []Sort
	Ret  Sort
}

type SpecSet struct {
	Funcs  map[string]*FuncSpec // key: pkgpath + "::" + Key, or external full name
	Preds  map[string]*PredDef
	UFns   map[string]*UFn
	Consts map[string]*big.Int
	Axioms []Clause
	HFns   map[string]*UFn
	EvDecl map[string][]Sort
	RecFns map[string]*RecFn
	RecOrder []string
	Files  []string
}

func NewSpecSet() *SpecSet {
	return &SpecSet{Funcs: map[string]*FuncSpec{}, Preds: map[string]*PredDef{}, UFns: map[string]*UFn{}, Consts: map[string]*big.Int{}, HFns: map[string]*UFn{}, EvDecl: map[string][]Sort{}, RecFns: map[string]*RecFn{}}
}

func sortByName(s string) (Sort, error) {
	switch s {
	case "Int":
		return SInt, nil
	case "Bool":
		return SBool, nil
	case "Str":
		return SStr, nil
	case "Bytes":
		return SByt, nil
	case "Arr":
		return SArrI, nil
	case "ArrB":
		return SArrB, nil
	case "ArrArr":
		return ArrSort(SInt, SArrI), nil
	case "ArrStr":
		return ArrSort(SInt, SStr), nil
	case "SetArr": // set of [N]byte values (e.g. addresses)
		return ArrSort(SArrI, SBool), nil
	case "SetStr":
		return ArrSort(SStr, SBool), nil
	case "SetInt":
		return ArrSort(SInt, SBool), nil
	case "MapArrInt":
		return ArrSort(SArrI, SInt), nil
	}
	if strings.HasPrefix(s, "(Array ") {
		return Sort(s), nil
	}
	return "", fmt.Errorf("unknown sort %q", s)
}

// LoadSpecFile parses one contract file. pkgPath is "" for externals.
func (ss *SpecSet) LoadSpecFile(path, pkgPath string) error {
	data, err := os.ReadFile(path)
	if err != nil {
		return err
	}
	ss.Files = append(ss.Files, path)
	type rawClause struct {
		kw, text string
		line     int
	}
	var raws []rawClause
	keywords := map[string]bool{"func": true, "requires": true, "ensures": true, "invariant": true, "assigns": true,
		"trusted": true, "maypanic": true, "pure": true, "pred": true, "ufn": true, "const": true, "axiom": true,
		"decreases": true, "opt": true, "hfn": true, "event": true, "evdecl": true, "recfn": true, "assumes": true, "lemma": true, "nopanic": true, "end": true}
	for i, line := range strings.Split(string(data), "\n") {
		t := strings.TrimSpace(line)
		if pkgPath != "" || strings.HasSuffix(path, ".go") {
			if !strings.HasPrefix(t, "//@") {
				continue
			}
			t = strings.TrimSpace(t[3:])
		} else {
			if strings.HasPrefix(t, "#") || strings.HasPrefix(t, "//") {
				continue
			}
		}
		if t == "" || strings.HasPrefix(t, "//") {
			continue
		}
		if j := strings.Index(t, " //"); j >= 0 && !strings.Contains(t[:j], "\"") {
			t = strings.TrimSpace(t[:j])
		}
		kw := t
		rest := ""
		if j := strings.IndexAny(t, " \t"); j >= 0 {
			kw, rest = t[:j], strings.TrimSpace(t[j+1:])
		}
		if strings.HasPrefix(kw, "invariant@") {
			rest = kw[len("invariant"):] + " " + rest
			kw = "invariant"
		}
		if keywords[kw] {
			raws = append(raws, rawClause{kw, rest, i + 1})
		} else if len(raws) > 0 {
			raws[len(raws)-1].text += " " + t
		} else {
			return fmt.Errorf("%s:%d: text before any directive", path, i+1)
		}
	}
	var cur *FuncSpec
	for _, r := range raws {
		fail := func(e error) error { return fmt.Errorf("%s:%d: %v", path, r.line, e) }
		switch r.kw {
		case "func", "lemma":
			fs, err := parseFuncHeader(r.text)
			if err != nil {
				return fail(err)
			}
			fs.Pkg = pkgPath
			fs.File, fs.Line = path, r.line
			fs.Opts = map[string]string{}
			fs.Lemma = r.kw == "lemma"
			key := fs.Key
			if pkgPath != "" && !strings.HasPrefix(fs.Key, "dyn:") {
				key = pkgPath + "::" + fs.Key
			}
			if _, dup := ss.Funcs[key]; dup {
				return fail(fmt.Errorf("duplicate contract for %s", key))
			}
			ss.Funcs[key] = fs
			cur = fs
		case "end":
			cur = nil
		case "requires", "ensures", "invariant", "decreases", "assumes":
			if cur == nil {
				return fail(fmt.Errorf("%s outside func", r.kw))
			}
			loopN := 0
			txt := r.text
			if r.kw == "invariant" && strings.HasPrefix(txt, "@") {
				j := strings.IndexAny(txt, " \t")
				if j < 0 {
					return fail(fmt.Errorf("bad invariant@N"))
				}
				fmt.Sscanf(txt[1:j], "%d", &loopN)
				txt = strings.TrimSpace(txt[j:])
			}
			e, err := ParseSpecExpr(txt)
			if err != nil {
				return fail(err)
			}
			cl := Clause{Kind: r.kw, Text: txt, E: e, Line: r.line, File: path, Loop: loopN}
			switch r.kw {
			case "requires":
				cur.Requires = append(cur.Requires, cl)
			case "ensures":
				cur.Ensures = append(cur.Ensures, cl)
			case "invariant":
				cur.Invs = append(cur.Invs, cl)
			case "assumes":
				cur.Assumed = append(cur.Assumed, cl)
			}
		case "assigns":
			if cur == nil {
				return fail(fmt.Errorf("assigns outside func"))
			}
			cur.HasAssigns = true
			for _, a := range strings.Split(r.text, ",") {
				a = strings.TrimSpace(a)
				if a != "" && a != "nothing" {
					cur.Assigns = append(cur.Assigns, a)
				}
			}
		case "event":
			evText, whenText := r.text, ""
			if j := strings.Index(r.text, " when "); j >= 0 {
				evText, whenText = strings.TrimSpace(r.text[:j]), strings.TrimSpace(r.text[j+6:])
			}
			e, err := ParseSpecExpr(evText)
			if err != nil {
				return fail(err)
			}
			call, ok := e.(SCall)
			if !ok || cur == nil {
				return fail(fmt.Errorf("event needs the form name(args...) [when cond] inside a func"))
			}
			ec := EventClause{Name: call.Fn, Args: call.Args, Text: r.text}
			if whenText != "" {
				w, err := ParseSpecExpr(whenText)
				if err != nil {
					return fail(err)
				}
				ec.When = w
			}
			cur.Events = append(cur.Events, ec)
		case "trusted":
			cur.Trusted = true
		case "maypanic":
			cur.MayPanic = true
		case "nopanic":
		case "pure":
			cur.Pure = true
			cur.HasAssigns = true
		case "opt":
			kv := strings.SplitN(r.text, "=", 2)
			if len(kv) == 2 && cur != nil {
				cur.Opts[strings.TrimSpace(kv[0])] = strings.TrimSpace(kv[1])
			}
		case "const":
			kv := strings.SplitN(r.text, "=", 2)
			if len(kv) != 2 {
				return fail(fmt.Errorf("bad const"))
			}
			n, ok := new(big.Int).SetString(strings.TrimSpace(kv[1]), 0)
			if !ok {
				return fail(fmt.Errorf("bad const value"))
			}
			ss.Consts[strings.TrimSpace(kv[0])] = n
		case "ufn":
			// ufn name(Sort, Sort) Sort
			op := strings.Index(r.text, "(")
			cp := strings.LastIndex(r.text, ")")
			if op < 0 || cp < op {
				return fail(fmt.Errorf("bad ufn"))
			}
			u := &UFn{Name: strings.TrimSpace(r.text[:op])}
			for _, a := range strings.Split(r.text[op+1:cp], ",") {
				a = strings.TrimSpace(a)
				if a == "" {
					continue
				}
				s, err := sortByName(a)
				if err != nil {
					return fail(err)
				}
				u.Args = append(u.Args, s)
			}
			s, err := sortByName(strings.TrimSpace(r.text[cp+1:]))
			if err != nil {
				return fail(err)
			}
			u.Ret = s
			ss.UFns[u.Name] = u
		case "recfn":
			j := strings.Index(r.text, ":=")
			if j < 0 {
				return fail(fmt.Errorf("recfn without :="))
			}
			head := strings.TrimSpace(r.text[:j])
			op := strings.Index(head, "(")
			cp := strings.LastIndex(head, ")")
			if op < 0 || cp < op {
				return fail(fmt.Errorf("bad recfn head"))
			}
			rf := &RecFn{Name: strings.TrimSpace(head[:op]), Text: r.text}
			for _, a := range strings.Split(head[op+1:cp], ",") {
				f := strings.Fields(strings.TrimSpace(a))
				if len(f) != 2 {
					return fail(fmt.Errorf("recfn parameter must be 'name Sort'"))
				}
				so, err := sortByName(f[1])
				if err != nil {
					return fail(err)
				}
				rf.Params = append(rf.Params, f[0])
				rf.Sorts = append(rf.Sorts, so)
			}
			so, err := sortByName(strings.TrimSpace(head[cp+1:]))
			if err != nil {
				return fail(err)
			}
			rf.Ret = so
			e, err := ParseSpecExpr(r.text[j+2:])
			if err != nil {
				return fail(err)
			}
			rf.Body = e
			ss.RecFns[rf.Name] = rf
			ss.RecOrder = append(ss.RecOrder, rf.Name)
		case "evdecl":
			// evdecl name(Sort, Sort, ...): argument sorts of a ghost event trace
			op := strings.Index(r.text, "(")
			cp := strings.LastIndex(r.text, ")")
			if op < 0 || cp < op {
				return fail(fmt.Errorf("bad evdecl"))
			}
			var sorts []Sort
			for _, a := range strings.Split(r.text[op+1:cp], ",") {
				a = strings.TrimSpace(a)
				if a == "" {
					continue
				}
				so, err := sortByName(a)
				if err != nil {
					return fail(err)
				}
				sorts = append(sorts, so)
			}
			ss.EvDecl[strings.TrimSpace(r.text[:op])] = sorts
		case "hfn":
			// hfn name Sort : ghost heap function from object ids to Sort
			parts := strings.Fields(r.text)
			if len(parts) != 2 {
				return fail(fmt.Errorf("bad hfn"))
			}
			s, err := sortByName(parts[1])
			if err != nil {
				return fail(err)
			}
			ss.HFns[parts[0]] = &UFn{Name: parts[0], Args: []Sort{SInt}, Ret: s}
		case "pred":
			// pred name(a, b) := expr
			j := strings.Index(r.text, ":=")
			if j < 0 {
				return fail(fmt.Errorf("pred without :="))
			}
			head := strings.TrimSpace(r.text[:j])
			op := strings.Index(head, "(")
			if op < 0 || !strings.HasSuffix(head, ")") {
				return fail(fmt.Errorf("bad pred head"))
			}
			pd := &PredDef{Name: strings.TrimSpace(head[:op]), Text: r.text}
			for _, a := range strings.Split(head[op+1:len(head)-1], ",") {
				a = strings.TrimSpace(a)
				if a != "" {
					pd.Params = append(pd.Params, a)
				}
			}
			e, err := ParseSpecExpr(r.text[j+2:])
			if err != nil {
				return fail(err)
			}
			pd.Body = e
			if prev, dup := ss.Preds[pd.Name]; dup && prev.Text != pd.Text {
				return fail(fmt.Errorf("pred %s is defined twice with different bodies (pred names are global)", pd.Name))
			}
			ss.Preds[pd.Name] = pd
		case "axiom":
			e, err := ParseSpecExpr(r.text)
			if err != nil {
				return fail(err)
			}
			ss.Axioms = append(ss.Axioms, Clause{Kind: "axiom", Text: r.text, E: e, Line: r.line, File: path})
		}
	}
	return nil
}

// parseFuncHeader parses `Name`, `(*T).M`, optionally followed by `(p1, p2) (r1, r2)`.
func parseFuncHeader(s string) (*FuncSpec, error) {
	s = strings.TrimSpace(s)
	fs := &FuncSpec{}
	// the key ends at the first '(' that is not at position 0 and not following "(*T)." receiver part
	i := 0
	if strings.HasPrefix(s, "(") {
		j := strings.Index(s, ")")
		if j < 0 {
			return nil, fmt.Errorf("bad receiver in %q", s)
		}
		i = j + 1
	}
	k := strings.Index(s[i:], "(")
	if k < 0 {
		fs.Key = strings.TrimSpace(s)
		return fs, nil
	}
	fs.Key = strings.TrimSpace(s[:i+k])
	rest := s[i+k:]
	cp := strings.Index(rest, ")")
	if cp < 0 {
		return nil, fmt.Errorf("bad params in %q", s)
	}
	for _, a := range strings.Split(rest[1:cp], ",") {
		if a = strings.TrimSpace(a); a != "" {
			fs.Params = append(fs.Params, a)
		}
	}
	rest = strings.TrimSpace(rest[cp+1:])
	if strings.HasPrefix(rest, "(") && strings.HasSuffix(rest, ")") {
		for _, a := range strings.Split(rest[1:len(rest)-1], ",") {
			if a = strings.TrimSpace(a); a != "" {
				fs.Results = append(fs.Results, a)
			}
		}
	}
	return fs, nil
}

// ---------------------------------------------------------------------------------------------
// expression parser (Pratt)

type tok struct {
	k string // id int str op eof
	s string
}

func lexSpec(s string) ([]tok, error) {
	var out []tok
	i := 0
	ops := []string{"<==>", "==>", "::", "&&", "||", "==", "!=", "<=", ">=", "<<", ">>", "&^", "+", "-", "*", "/", "%", "<", ">", "!", "(", ")", "[", "]", ",", ".", "&", "|", "^", ":"}
	for i < len(s) {
		c := rune(s[i])
		switch {
		case unicode.IsSpace(c):
			i++
		case unicode.IsLetter(c) || c == '_':
			j := i
			for j < len(s) && (unicode.IsLetter(rune(s[j])) || unicode.IsDigit(rune(s[j])) || s[j] == '_' || s[j] == '$') {
				j++
			}
			out = append(out, tok{"id", s[i:j]})
			i = j
		case unicode.IsDigit(c):
			j := i
			for j < len(s) && (unicode.IsLetter(rune(s[j])) || unicode.IsDigit(rune(s[j])) || s[j] == '_') {
				j++
			}
			out = append(out, tok{"int", s[i:j]})
			i = j
		case c == '"':
			j := i + 1
			for j < len(s) && s[j] != '"' {
				j++
			}
			if j >= len(s) {
				return nil, fmt.Errorf("unterminated string")
			}
			out = append(out, tok{"str", s[i+1 : j]})
			i = j + 1
		default:
			matched := false
			for _, op := range ops {
				if strings.HasPrefix(s[i:], op) {
					out = append(out, tok{"op", op})
					i += len(op)
					matched = true
					break
				}
			}
			if !matched {
				return nil, fmt.Errorf("unexpected character %q in %q", c, s)
			}
		}
	}
	out = append(out, tok{"eof", ""})
	return out, nil
}

type sparser struct {
	toks []tok
	pos  int
}

func ParseSpecExpr(s string) (SExpr, error) {
	toks, err := lexSpec(s)
	if err != nil {
		return nil, err
	}
	p := &sparser{toks: toks}
	e, err := p.expr(0)
	if err != nil {
		return nil, fmt.Errorf("%v in %q", err, s)
	}
	if p.peek().k != "eof" {
		return nil, fmt.Errorf("trailing input %q in %q", p.peek().s, s)
	}
	return e, nil
}

func (p *sparser) peek() tok { return p.toks[p.pos] }
func (p *sparser) next() tok { t := p.toks[p.pos]; p.pos++; return t }
func (p *sparser) accept(op string) bool {
	if p.peek().k == "op" && p.peek().s == op {
		p.pos++
		return true
	}
	return false
}

var binPrec = map[string]int{
	"<==>": 1, "==>": 2, "||": 3, "&&": 4,
	"==": 5, "!=": 5, "<": 5, "<=": 5, ">": 5, ">=": 5,
	"+": 6, "-": 6, "|": 6, "^": 6,
	"*": 7, "/": 7, "%": 7, "<<": 7, ">>": 7, "&": 7, "&^": 7,
}

func (p *sparser) expr(minPrec int) (SExpr, error) {
	lhs, err := p.unary()
	if err != nil {
		return nil, err
	}
	for {
		t := p.peek()
		if t.k != "op" {
			return lhs, nil
		}
		prec, ok := binPrec[t.s]
		if !ok || prec < minPrec {
			return lhs, nil
		}
		p.next()
		nextMin := prec + 1
		if t.s == "==>" {
			nextMin = prec // right assoc
		}
		rhs, err := p.expr(nextMin)
		if err != nil {
			return nil, err
		}
		lhs = SBinary{t.s, lhs, rhs}
	}
}

func (p *sparser) unary() (SExpr, error) {
	t := p.peek()
	if t.k == "op" && (t.s == "!" || t.s == "-") {
		p.next()
		x, err := p.unary()
		if err != nil {
			return nil, err
		}
		return SUnary{t.s, x}, nil
	}
	if t.k == "id" && (t.s == "forall" || t.s == "exists") {
		p.next()
		q := SQuant{Forall: t.s == "forall"}
		for {
			v := p.next()
			if v.k != "id" {
				return nil, fmt.Errorf("quantifier variable expected")
			}
			q.Vars = append(q.Vars, v.s)
			srt := "Int"
			if p.peek().k == "id" {
				srt = p.next().s
			}
			q.Sorts = append(q.Sorts, srt)
			if !p.accept(",") {
				break
			}
		}
		if !p.accept("::") {
			return nil, fmt.Errorf("'::' expected after quantifier variables")
		}
		body, err := p.expr(0)
		if err != nil {
			return nil, err
		}
		q.Body = body
		return q, nil
	}
	return p.postfix()
}

func (p *sparser) postfix() (SExpr, error) {
	x, err := p.primary()
	if err != nil {
		return nil, err
	}
	for {
		switch {
		case p.accept("."):
			t := p.next()
			if t.k != "id" {
				return nil, fmt.Errorf("field name expected after '.'")
			}
			x = SSel{x, t.s}
		case p.accept("["):
			i, err := p.expr(0)
			if err != nil {
				return nil, err
			}
			if !p.accept("]") {
				return nil, fmt.Errorf("']' expected")
			}
			x = SIndex{x, i}
		case p.peek().k == "op" && p.peek().s == "(":
			id, ok := x.(SIdent)
			if !ok {
				return nil, fmt.Errorf("call of non-identifier")
			}
			p.next()
			var args []SExpr
			if !p.accept(")") {
				for {
					a, err := p.expr(0)
					if err != nil {
						return nil, err
					}
					args = append(args, a)
					if p.accept(")") {
						break
					}
					if !p.accept(",") {
						return nil, fmt.Errorf("',' or ')' expected in call")
					}
				}
			}
			x = SCall{id.Name, args}
		default:
			return x, nil
		}
	}
}

func (p *sparser) primary() (SExpr, error) {
	t := p.next()
	switch t.k {
	case "id":
		switch t.s {
		case "true":
			return SBoolLit{true}, nil
		case "false":
			return SBoolLit{false}, nil
		case "nil":
			return SNil{}, nil
		}
		return SIdent{t.s}, nil
	case "int":
		n, ok := new(big.Int).SetString(strings.ReplaceAll(t.s, "_", ""), 0)
		if !ok {
			return nil, fmt.Errorf("bad integer %q", t.s)
		}
		return SIntLit{n}, nil
	case "str":
		return SStrLit{t.s}, nil
	case "op":
		if t.s == "(" {
			e, err := p.expr(0)
			if err != nil {
				return nil, err
			}
			if !p.accept(")") {
				return nil, fmt.Errorf("')' expected")
			}
			return e, nil
		}
	}
	return nil, fmt.Errorf("unexpected token %q", t.s)
}

// identsOf collects free identifiers of an expression (for invariant placement).
func identsOf(e SExpr, out map[string]bool) {
	switch x := e.(type) {
	case SIdent:
		out[x.Name] = true
	case SSel:
		identsOf(x.X, out)
	case SIndex:
		identsOf(x.X, out)
		identsOf(x.I, out)
	case SCall:
		for _, a := range x.Args {
			identsOf(a, out)
		}
	case SUnary:
		identsOf(x.X, out)
	case SBinary:
		identsOf(x.X, out)
		identsOf(x.Y, out)
	case SQuant:
		inner := map[string]bool{}
		identsOf(x.Body, inner)
		for _, v := range x.Vars {
			delete(inner, v)
		}
		for k := range inner {
			out[k] = true
		}
	}
}

// callsOf collects the names of the functions applied in an expression.
func callsOf(e SExpr, out map[string]bool) {
	switch x := e.(type) {
	case SSel:
		callsOf(x.X, out)
	case SIndex:
		callsOf(x.X, out)
		callsOf(x.I, out)
	case SCall:
		out[x.Fn] = true
		for _, a := range x.Args {
			callsOf(a, out)
		}
	case SUnary:
		callsOf(x.X, out)
	case SBinary:
		callsOf(x.X, out)
		callsOf(x.Y, out)
	case SQuant:
		callsOf(x.Body, out)
	}
}

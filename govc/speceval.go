package main

// Evaluation of contract expressions into SMT terms over a symbolic state.

import (
	"os"
	"math/big"
	"fmt"
	"go/token"
	"go/types"
	"strings"

	"golang.org/x/tools/go/ssa"
)

type SVal struct {
	V Value
	T types.Type // nil for spec-level math ints / bools
}

type SpecEnv struct {
	u     *Unit
	st    *State
	old   *State
	names map[string]SVal
	depth int
	allowUndefined bool
	noUnfold bool
	pol   int      // +1: formula in goal position, -1: hypothesis position, 0: unknown (no typing facts)
	facts *[]Term  // typing facts of references read while evaluating (heap type safety)
	fn    *ssa.Function // the function whose contract is being evaluated (for typearg())
}

func (e *SpecEnv) with(names map[string]SVal) *SpecEnv {
	n := &SpecEnv{u: e.u, st: e.st, old: e.old, names: map[string]SVal{}, depth: e.depth + 1, allowUndefined: e.allowUndefined, noUnfold: e.noUnfold, pol: e.pol, facts: e.facts, fn: e.fn}
	for k, v := range e.names {
		n.names[k] = v
	}
	for k, v := range names {
		n.names[k] = v
	}
	return n
}

func (e *SpecEnv) evalTerm(x SExpr) (Term, error) {
	v, err := e.eval(x)
	if err != nil {
		return Term{}, err
	}
	return e.toTerm(v)
}

// evalGoal evaluates a formula that is to be proved; evalHyp one that is assumed. While evaluating,
// the typing facts of all references read from the heap (0 <= ref < allocation counter: heap type
// safety, true in every execution) are collected and attached where they help and are sound: as
// antecedents of goals and of universally quantified goals, as extra conjuncts of hypotheses.
func (e *SpecEnv) evalGoal(x SExpr) (Term, error) {
	var fs []Term
	sub := *e
	sub.pol, sub.facts = 1, &fs
	t, err := sub.evalBool(x)
	if err != nil {
		return Term{}, err
	}
	return Imp(And(dedupTerms(fs)...), t), nil
}

func dedupTerms(ts []Term) []Term {
	seen := map[string]bool{}
	var out []Term
	for _, t := range ts {
		if !seen[t.S] {
			seen[t.S] = true
			out = append(out, t)
		}
	}
	return out
}

func (e *SpecEnv) evalHyp(x SExpr) (Term, error) {
	var fs []Term
	sub := *e
	sub.pol, sub.facts = -1, &fs
	t, err := sub.evalBool(x)
	if err != nil {
		return Term{}, err
	}
	return And(append([]Term{t}, dedupTerms(fs)...)...), nil
}

// noteRefs records typing facts for the reference-valued leaves of a value just read from the heap.
func (e *SpecEnv) noteRefs(v Value, t types.Type) {
	if e.facts == nil || e.pol == 0 || t == nil {
		return
	}
	lfs := leaves(t)
	if len(lfs) == 0 || len(lfs) > 8 {
		return
	}
	var terms []Term
	func() {
		defer func() { recover() }()
		terms = e.u.m.flatten(t, v)
	}()
	if len(terms) != len(lfs) {
		return
	}
	for i, lf := range lfs {
		switch lf.Kind {
		case "ptr", "ref", "arr":
			*e.facts = append(*e.facts, And(Le(IntLit(0), terms[i]), Lt(terms[i], e.st.alloc)))
		case "len", "cap":
			// heap type safety incl. A-slice-size (value.go)
			if os.Getenv("GOVC_NOLENUB") != "" {
				*e.facts = append(*e.facts, Le(IntLit(0), terms[i]))
			} else {
				*e.facts = append(*e.facts, And(Le(IntLit(0), terms[i]), Le(terms[i], BigLit(maxElems(lf.T)))))
			}
		case "off":
			*e.facts = append(*e.facts, Le(IntLit(0), terms[i]))
		}
	}
}

func (e *SpecEnv) evalBool(x SExpr) (Term, error) {
	t, err := e.evalTerm(x)
	if err != nil {
		return Term{}, err
	}
	if t.Sort != SBool {
		return Term{}, fmt.Errorf("boolean expected, got sort %s", t.Sort)
	}
	return t, nil
}

func (e *SpecEnv) toTerm(v SVal) (Term, error) {
	switch x := v.V.(type) {
	case Scalar:
		return x.T, nil
	case PtrV:
		if x.isRoot() || (x.Arr && x.Idx == nil && len(x.Path) == 0) {
			return x.Base, nil
		}
		return Term{}, fmt.Errorf("interior pointer used as a value")
	case IfaceV:
		return x.Pay, nil // identity abstraction of an interface value (payload id)
	case SliceV:
		if v.T != nil {
			if sl, ok := v.T.Underlying().(*types.Slice); ok {
				if b, ok := sl.Elem().Underlying().(*types.Basic); ok && b.Kind() == types.Uint8 {
					return e.u.bytesContentT(e.st, x), nil
				}
			}
		}
		return Term{}, fmt.Errorf("slice used as a value (only []byte has a content abstraction)")
	}
	return Term{}, fmt.Errorf("value of kind %T is not a term", v.V)
}

func (u *Unit) bytesContentT(st *State, s SliceV) Term {
	return u.m.bytesContent(st, s)
}

func (e *SpecEnv) eval(x SExpr) (SVal, error) {
	u := e.u
	switch n := x.(type) {
	case SIntLit:
		return SVal{V: Scalar{BigLit(n.V)}}, nil
	case SBoolLit:
		if n.V {
			return SVal{V: Scalar{TTrue}}, nil
		}
		return SVal{V: Scalar{TFalse}}, nil
	case SStrLit:
		return SVal{V: Scalar{u.c.StrLit(n.V)}}, nil
	case SNil:
		return SVal{V: Scalar{IntLit(0)}}, nil
	case SIdent:
		if v, ok := e.names[n.Name]; ok {
			return v, nil
		}
		if c, ok := u.eng.specs.Consts[n.Name]; ok {
			return SVal{V: Scalar{BigLit(c)}}, nil
		}
		// package-level variable or constant of the unit's package
		if u.fn.Pkg != nil {
			switch m := u.fn.Pkg.Members[n.Name].(type) {
			case *ssa.Global:
				if pv, ok := u.globalPtr(m).(PtrV); ok {
					return SVal{V: u.loadNoAssume(e.st, pv), T: m.Type().(*types.Pointer).Elem()}, nil
				}
			case *ssa.NamedConst:
				return SVal{V: u.constValue(m.Value), T: m.Type()}, nil
			}
		}
		return SVal{}, fmt.Errorf("unknown name %q", n.Name)
	case SSel:
		// package-qualified constant: pkg.Name
		if id, ok := n.X.(SIdent); ok {
			if _, bound := e.names[id.Name]; !bound {
				if c, ok := u.eng.lookupConst(id.Name, n.Name); ok {
					return c, nil
				}
			}
		}
		xv, err := e.eval(n.X)
		if err != nil {
			return SVal{}, err
		}
		return e.selectField(xv, n.Name)
	case SIndex:
		xv, err := e.eval(n.X)
		if err != nil {
			return SVal{}, err
		}
		iv, err := e.eval(n.I)
		if err != nil {
			return SVal{}, err
		}
		return e.index(xv, iv)
	case SUnary:
		if n.Op == "!" {
			neg := *e
			neg.pol = -e.pol
			t, err := neg.evalTerm(n.X)
			if err != nil {
				return SVal{}, err
			}
			return SVal{V: Scalar{Not(t)}}, nil
		}
		t, err := e.evalTerm(n.X)
		if err != nil {
			return SVal{}, err
		}
		if n.Op == "!" {
			return SVal{V: Scalar{Not(t)}}, nil
		}
		return SVal{V: Scalar{Sub(IntLit(0), t)}}, nil
	case SBinary:
		return e.binary(n)
	case SQuant:
		names := map[string]SVal{}
		var binders []string
		for i, v := range n.Vars {
			s, err := sortByName(n.Sorts[i])
			if err != nil {
				return SVal{}, err
			}
			u.qctr++
			bn := fmt.Sprintf("%s_q%d", v, u.qctr)
			binders = append(binders, fmt.Sprintf("(%s %s)", bn, s))
			names[v] = SVal{V: Scalar{Term{bn, s}}}
		}
		sub := e.with(names)
		var inner []Term
		if e.facts != nil {
			sub.facts = &inner
		}
		body, err := sub.evalBool(n.Body)
		if err != nil {
			return SVal{}, err
		}
		// typing facts that mention a bound variable belong to this quantifier, the others move outward
		var dep []Term
		for _, f := range inner {
			mentions := false
			for _, nm := range names {
				if strings.Contains(f.S, nm.V.(Scalar).T.S) {
					mentions = true
				}
			}
			if mentions {
				dep = append(dep, f)
			} else if e.facts != nil {
				*e.facts = append(*e.facts, f)
			}
		}
		dep = dedupTerms(dep)
		if len(dep) > 0 {
			switch {
			case n.Forall && e.pol > 0:
				body = Imp(And(dep...), body)
			case e.pol < 0: // hypothesis: forall x. P && T   /   exists x. P && T
				body = And(append([]Term{body}, dep...)...)
			}
		}
		q := "exists"
		if n.Forall {
			q = "forall"
		}
		return SVal{V: Scalar{Term{fmt.Sprintf("(%s (%s) %s)", q, strings.Join(binders, " "), body.S), SBool}}}, nil
	case SCall:
		return e.callSpec(n)
	}
	return SVal{}, fmt.Errorf("unsupported spec expression %T", x)
}

func (e *SpecEnv) selectField(xv SVal, name string) (SVal, error) {
	u := e.u
	if xv.T == nil {
		return SVal{}, fmt.Errorf("field %s of untyped value", name)
	}
	t := xv.T
	if p, ok := t.Underlying().(*types.Pointer); ok {
		pv, ok := xv.V.(PtrV)
		if !ok {
			return SVal{}, fmt.Errorf("pointer value expected for .%s", name)
		}
		st, ok := p.Elem().Underlying().(*types.Struct)
		if !ok {
			return SVal{}, fmt.Errorf(".%s on pointer to non-struct %s", name, typeName(p.Elem()))
		}
		for i := 0; i < st.NumFields(); i++ {
			if st.Field(i).Name() == name {
				q := pv
				q.Path = append(append([]int{}, pv.Path...), i)
				ft := st.Field(i).Type()
				// struct-typed fields stay as pointers into the object (lazy), so that a chain a.b.c reads
				// only the leaf it needs
				if _, isStruct := ft.Underlying().(*types.Struct); isStruct {
					return SVal{V: q, T: types.NewPointer(ft)}, nil
				}
				lv := u.loadNoAssume(e.st, q)
				e.noteRefs(lv, ft)
				return SVal{V: lv, T: ft}, nil
			}
		}
		// ghost fields of opaque types: declared as heap functions, handled in callSpec
		return SVal{}, fmt.Errorf("no field %s in %s", name, typeName(p.Elem()))
	}
	if st, ok := t.Underlying().(*types.Struct); ok {
		sv, ok := xv.V.(StructV)
		if !ok {
			return SVal{}, fmt.Errorf("struct value expected for .%s", name)
		}
		for i := 0; i < st.NumFields(); i++ {
			if st.Field(i).Name() == name {
				return SVal{V: sv.F[i], T: st.Field(i).Type()}, nil
			}
		}
		return SVal{}, fmt.Errorf("no field %s in %s", name, typeName(t))
	}
	return SVal{}, fmt.Errorf(".%s on %s", name, typeName(t))
}

func (e *SpecEnv) index(xv, iv SVal) (SVal, error) {
	u := e.u
	it, err := e.toTerm(iv)
	if err != nil {
		return SVal{}, err
	}
	switch x := xv.V.(type) {
	case SliceV:
		elem := xv.T.Underlying().(*types.Slice).Elem()
		i := ElemIdx(x.Off, it)
		p := PtrV{Base: x.Arr, Obj: elem, Arr: true, Idx: &i}
		if _, isStruct := elem.Underlying().(*types.Struct); isStruct {
			return SVal{V: p, T: types.NewPointer(elem)}, nil
		}
		lv := u.loadNoAssume(e.st, p)
		e.noteRefs(lv, elem)
		return SVal{V: lv, T: elem}, nil
	case Scalar:
		if xv.T != nil {
			switch t := xv.T.Underlying().(type) {
			case *types.Array:
				return SVal{V: Scalar{Select(x.T, it)}, T: t.Elem()}, nil
			case *types.Map:
				lv := u.mapLoadValNoAssume(e.st, t, x.T, u.mapKeyTerm(t, iv.V))
				e.noteRefs(lv, t.Elem())
				return SVal{V: lv, T: t.Elem()}, nil
			case *types.Basic:
				return SVal{V: Scalar{app(SInt, "str_at", x.T, it)}}, nil
			}
		}
		if strings.HasPrefix(string(x.T.Sort), "(Array ") {
			return SVal{V: Scalar{Select(x.T, it)}}, nil
		}
		if x.T.Sort == SByt {
			return SVal{V: Scalar{app(SInt, "bytes_at", x.T, it)}}, nil
		}
	case PtrV:
		// pointer to array
		if x.Arr && x.Idx == nil {
			q := x
			q.Idx = &it
			return SVal{V: u.loadNoAssume(e.st, q), T: x.Obj}, nil
		}
	}
	return SVal{}, fmt.Errorf("cannot index %T", xv.V)
}

// loadNoAssume is Load without emitting typing assumptions (terms may contain bound variables).
func (u *Unit) loadNoAssume(st *State, p PtrV) Value {
	t := p.pointee()
	if p.Sub != nil {
		q := p
		q.Sub = nil
		lf := leaves(q.pointee())[0]
		return Scalar{Select(u.m.loadLeaf(st, q, lf), *p.Sub)}
	}
	lfs := leaves(t)
	if len(lfs) == 0 {
		return StructV{}
	}
	terms := make([]Term, len(lfs))
	for i, lf := range lfs {
		terms[i] = u.m.loadLeaf(st, p, lf)
	}
	v, _ := u.m.unflatten(t, terms)
	return v
}

func (u *Unit) mapLoadValNoAssume(st *State, mt *types.Map, mref, k Term) Value {
	ks := mapKeySort(mt)
	lfs := leaves(mt.Elem())
	if len(lfs) == 0 {
		return StructV{}
	}
	terms := make([]Term, len(lfs))
	for i, lf := range lfs {
		u.m.markRef(u.mapValName(mt, lf.Path), lf.Kind)
		comp := u.m.comp(st, u.mapValName(mt, lf.Path), ArrSort(SInt, ArrSort(ks, lf.Sort)))
		terms[i] = Select(Select(comp, mref), k)
	}
	v, _ := u.m.unflatten(mt.Elem(), terms)
	return v
}

func (e *SpecEnv) binary(n SBinary) (SVal, error) {
	u := e.u
	switch n.Op {
	case "&&", "||", "==>", "<==>":
		le, re := e, e
		switch n.Op {
		case "==>":
			l := *e
			l.pol = -e.pol
			le = &l
		case "<==>":
			l := *e
			l.pol, l.facts = 0, nil
			le, re = &l, &l
		}
		a, err := le.evalBool(n.X)
		if err != nil {
			return SVal{}, err
		}
		if n.Op == "==>" && a.S == TFalse.S {
			// statically false antecedent (typearg() of another instantiation): the consequent need not even be
			// well typed for this instantiation
			return SVal{V: Scalar{TTrue}}, nil
		}
		b, err := re.evalBool(n.Y)
		if err != nil {
			if n.Op == "==>" && e.allowUndefined && strings.HasPrefix(err.Error(), "unknown name") {
				// the consequent names a source local that is not defined on this path: the clause can
				// only hold here if the antecedent is false
				return SVal{V: Scalar{Not(a)}}, nil
			}
			return SVal{}, err
		}
		switch n.Op {
		case "&&":
			return SVal{V: Scalar{And(a, b)}}, nil
		case "||":
			return SVal{V: Scalar{Or(a, b)}}, nil
		case "==>":
			return SVal{V: Scalar{Imp(a, b)}}, nil
		default:
			return SVal{V: Scalar{Eq(a, b)}}, nil
		}
	case "==", "!=":
		av, err := e.eval(n.X)
		if err != nil {
			return SVal{}, err
		}
		bv, err := e.eval(n.Y)
		if err != nil {
			return SVal{}, err
		}
		var eq Term
		_, anil := n.X.(SNil)
		_, bnil := n.Y.(SNil)
		switch {
		case bnil:
			eq, err = e.isNil(av)
		case anil:
			eq, err = e.isNil(bv)
		default:
			ta, tb := av.T, bv.T
			if ta == nil {
				ta = tb
			}
			if tb == nil {
				tb = ta
			}
			if ta == nil {
				at, _ := e.toTerm(av)
				bt, _ := e.toTerm(bv)
				eq = Eq(at, bt)
			} else if _, isSlice := ta.Underlying().(*types.Slice); isSlice {
				at, err1 := e.toTerm(av)
				bt, err2 := e.toTerm(bv)
				if err1 != nil || err2 != nil {
					return SVal{}, fmt.Errorf("slice equality needs a content abstraction")
				}
				eq = Eq(at, bt)
			} else {
				eq = u.valuesEqual(e.st, av.V, bv.V, ta, tb)
			}
		}
		if err != nil {
			return SVal{}, err
		}
		if n.Op == "!=" {
			eq = Not(eq)
		}
		return SVal{V: Scalar{eq}}, nil
	}
	a, err := e.evalTerm(n.X)
	if err != nil {
		return SVal{}, err
	}
	b, err := e.evalTerm(n.Y)
	if err != nil {
		return SVal{}, err
	}
	switch n.Op {
	case "<":
		return SVal{V: Scalar{Lt(a, b)}}, nil
	case "<=":
		return SVal{V: Scalar{Le(a, b)}}, nil
	case ">":
		return SVal{V: Scalar{Gt(a, b)}}, nil
	case ">=":
		return SVal{V: Scalar{Ge(a, b)}}, nil
	case "+":
		return SVal{V: Scalar{Add(a, b)}}, nil
	case "-":
		return SVal{V: Scalar{Sub(a, b)}}, nil
	case "*":
		return SVal{V: Scalar{Mul(a, b)}}, nil
	case "/":
		return SVal{V: Scalar{app(SInt, "div", a, b)}}, nil
	case "%":
		return SVal{V: Scalar{app(SInt, "mod", a, b)}}, nil
	}
	return SVal{}, fmt.Errorf("unsupported operator %s in contract", n.Op)
}

func (e *SpecEnv) isNil(v SVal) (Term, error) {
	switch x := v.V.(type) {
	case PtrV:
		if x.isRoot() || (x.Arr && x.Idx == nil) {
			return Eq(x.Base, IntLit(0)), nil
		}
		return TFalse, nil
	case SliceV:
		return Eq(x.Arr, IntLit(0)), nil
	case IfaceV:
		return Eq(x.Tag, IntLit(0)), nil
	case Scalar:
		if x.T.Sort == SInt {
			return Eq(x.T, IntLit(0)), nil
		}
	case FuncV:
		if x.Fn != nil {
			return TFalse, nil
		}
		return Eq(x.Opaque, IntLit(0)), nil
	}
	return Term{}, fmt.Errorf("nil comparison of %T", v.V)
}

func (e *SpecEnv) callSpec(n SCall) (SVal, error) {
	u := e.u
	switch n.Fn {
	case "old":
		if len(n.Args) != 1 {
			return SVal{}, fmt.Errorf("old takes one argument")
		}
		o := &SpecEnv{u: u, st: e.old, old: e.old, names: e.names, depth: e.depth, pol: e.pol, facts: e.facts, allowUndefined: e.allowUndefined, noUnfold: e.noUnfold, fn: e.fn}
		return o.eval(n.Args[0])
	case "len", "cap":
		v, err := e.eval(n.Args[0])
		if err != nil {
			return SVal{}, err
		}
		switch x := v.V.(type) {
		case SliceV:
			if n.Fn == "len" {
				return SVal{V: Scalar{x.Len}}, nil
			}
			return SVal{V: Scalar{x.Cap}}, nil
		case Scalar:
			if x.T.Sort == SStr {
				return SVal{V: Scalar{app(SInt, "strlen", x.T)}}, nil
			}
			if x.T.Sort == SByt {
				return SVal{V: Scalar{app(SInt, "bytes_len", x.T)}}, nil
			}
			if v.T != nil {
				switch t := v.T.Underlying().(type) {
				case *types.Array:
					return SVal{V: Scalar{IntLit(t.Len())}}, nil
				case *types.Map:
					lc := u.m.comp(e.st, u.mapLenName(t), SArrI)
					return SVal{V: Scalar{Select(lc, x.T)}}, nil
				}
			}
		}
		return SVal{}, fmt.Errorf("len of %T", v.V)
	case "content":
		v, err := e.eval(n.Args[0])
		if err != nil {
			return SVal{}, err
		}
		if s, ok := v.V.(SliceV); ok {
			return SVal{V: Scalar{u.bytesContentT(e.st, s)}}, nil
		}
		if s, ok := v.V.(Scalar); ok && s.T.Sort == SStr {
			return SVal{V: Scalar{app(SByt, "str_bytes", s.T)}}, nil
		}
		return SVal{}, fmt.Errorf("content of %T", v.V)
	case "subcontent": // subcontent(s, lo, hi): content abstraction of s[lo:hi]
		if len(n.Args) != 3 {
			return SVal{}, fmt.Errorf("subcontent(slice, lo, hi)")
		}
		v, err := e.eval(n.Args[0])
		if err != nil {
			return SVal{}, err
		}
		sl, ok := v.V.(SliceV)
		if !ok {
			return SVal{}, fmt.Errorf("subcontent of %T", v.V)
		}
		lo, err := e.evalTerm(n.Args[1])
		if err != nil {
			return SVal{}, err
		}
		hi, err := e.evalTerm(n.Args[2])
		if err != nil {
			return SVal{}, err
		}
		return SVal{V: Scalar{u.m.bytesContent(e.st, SliceV{sl.Arr, Add(sl.Off, lo), Sub(hi, lo), Sub(hi, lo)})}}, nil
	case "bytes_content":
		if len(n.Args) != 3 {
			return SVal{}, fmt.Errorf("bytes_content(array, off, len)")
		}
		var ts []Term
		for _, a := range n.Args {
			t, err := e.evalTerm(a)
			if err != nil {
				return SVal{}, err
			}
			ts = append(ts, t)
		}
		return SVal{V: Scalar{app(SByt, "bytes_content", ts...)}}, nil
	case "int", "int8", "int16", "int32", "int64", "uint", "uint8", "uint16", "uint32", "uint64", "byte":
		// Go conversion semantics: the value is reduced into the range of the target type
		t, err := e.evalTerm(n.Args[0])
		if err != nil {
			return SVal{}, err
		}
		bits := map[string]uint{"int": 64, "int8": 8, "int16": 16, "int32": 32, "int64": 64, "uint": 64, "uint8": 8, "uint16": 16, "uint32": 32, "uint64": 64, "byte": 8}[n.Fn]
		if strings.HasPrefix(n.Fn, "int") {
			return SVal{V: Scalar{WrapS(t, bits)}}, nil
		}
		return SVal{V: Scalar{WrapU(t, bits)}}, nil
	case "wrap64":
		t, err := e.evalTerm(n.Args[0])
		if err != nil {
			return SVal{}, err
		}
		return SVal{V: Scalar{WrapU(t, 64)}}, nil
	case "ite":
		c, err := e.evalBool(n.Args[0])
		if err != nil {
			return SVal{}, err
		}
		a, err := e.evalTerm(n.Args[1])
		if err != nil {
			return SVal{}, err
		}
		b, err := e.evalTerm(n.Args[2])
		if err != nil {
			return SVal{}, err
		}
		return SVal{V: Scalar{Ite(c, a, b)}}, nil
	case "has": // has(m, k): key present in map
		mv, err := e.eval(n.Args[0])
		if err != nil {
			return SVal{}, err
		}
		kv, err := e.eval(n.Args[1])
		if err != nil {
			return SVal{}, err
		}
		mt, ok := mv.T.Underlying().(*types.Map)
		if !ok {
			return SVal{}, fmt.Errorf("has on non-map")
		}
		kt := u.mapKeyTerm(mt, kv.V)
		return SVal{V: Scalar{u.mapHas(e.st, mt, mv.V.(Scalar).T, kt)}}, nil
	case "typeis": // typeis(x, "pkg.T") dynamic type test on an interface value
		v, err := e.eval(n.Args[0])
		if err != nil {
			return SVal{}, err
		}
		iv, ok := v.V.(IfaceV)
		if !ok {
			return SVal{}, fmt.Errorf("typeis on %T", v.V)
		}
		tn, ok := n.Args[1].(SStrLit)
		if !ok {
			return SVal{}, fmt.Errorf("typeis needs a type name string")
		}
		t, err := u.eng.resolveType(tn.V)
		if err != nil {
			return SVal{}, err
		}
		return SVal{V: Scalar{Eq(iv.Tag, IntLit(u.m.typeID(t)))}}, nil
	case "as": // as(x, "*pkg.T"): payload of an interface value viewed as T
		v, err := e.eval(n.Args[0])
		if err != nil {
			return SVal{}, err
		}
		iv, ok := v.V.(IfaceV)
		if !ok {
			return SVal{}, fmt.Errorf("as on %T", v.V)
		}
		tn, _ := n.Args[1].(SStrLit)
		t, err := u.eng.resolveType(tn.V)
		if err != nil {
			return SVal{}, err
		}
		return SVal{V: u.unboxNoAssume(iv.Pay, t), T: t}, nil
	case "typetag": // typetag(x): the dynamic type tag of an interface value (0 for nil)
		v, err := e.eval(n.Args[0])
		if err != nil {
			return SVal{}, err
		}
		iv, ok := v.V.(IfaceV)
		if !ok {
			return SVal{}, fmt.Errorf("typetag on %T", v.V)
		}
		return SVal{V: Scalar{iv.Tag}}, nil
	case "payload": // payload(x): the data word of an interface value (for pointer dynamic types: the pointer; 0 = typed nil)
		v, err := e.eval(n.Args[0])
		if err != nil {
			return SVal{}, err
		}
		iv, ok := v.V.(IfaceV)
		if !ok {
			return SVal{}, fmt.Errorf("payload on %T", v.V)
		}
		return SVal{V: Scalar{iv.Pay}}, nil
	case "sentinel": // sentinel("pkg.ErrName"): an immutable package-level error value of a dependency
		tn, ok := n.Args[0].(SStrLit)
		if !ok {
			return SVal{}, fmt.Errorf("sentinel needs a string")
		}
		dot := strings.LastIndex(tn.V, ".")
		if dot < 0 {
			return SVal{}, fmt.Errorf("sentinel(\"pkg.Name\")")
		}
		for _, p := range u.eng.prog.AllPackages() {
			if p.Pkg.Name() == tn.V[:dot] || strings.HasSuffix(p.Pkg.Path(), tn.V[:dot]) {
				if g, ok := p.Members[tn.V[dot+1:]].(*ssa.Global); ok {
					if v, ok := u.globalConst(g, e.st); ok {
						return SVal{V: v, T: g.Type().(*types.Pointer).Elem()}, nil
					}
				}
			}
		}
		return SVal{}, fmt.Errorf("sentinel %s not found", tn.V)
	case "global": // global("pkg.Name"): the current value of a package-level variable of any loaded package
		tn, ok := n.Args[0].(SStrLit)
		if !ok {
			return SVal{}, fmt.Errorf("global needs a string")
		}
		dot := strings.LastIndex(tn.V, ".")
		if dot < 0 {
			return SVal{}, fmt.Errorf("global(\"pkg.Name\")")
		}
		for _, p := range u.eng.prog.AllPackages() {
			if p.Pkg.Name() == tn.V[:dot] || strings.HasSuffix(p.Pkg.Path(), tn.V[:dot]) {
				if g, ok := p.Members[tn.V[dot+1:]].(*ssa.Global); ok {
					if v, ok := u.globalConst(g, e.st); ok {
						return SVal{V: v, T: g.Type().(*types.Pointer).Elem()}, nil
					}
					if pv, ok := u.globalPtr(g).(PtrV); ok {
						return SVal{V: u.loadNoAssume(e.st, pv), T: g.Type().(*types.Pointer).Elem()}, nil
					}
				}
			}
		}
		return SVal{}, fmt.Errorf("global %s not found", tn.V)
	case "mapdom": // mapdom(m): the key set of a map as an SMT set
		v, err := e.eval(n.Args[0])
		if err != nil {
			return SVal{}, err
		}
		mt, ok := v.T.Underlying().(*types.Map)
		if !ok {
			return SVal{}, fmt.Errorf("mapdom of non-map")
		}
		dom := u.mapDom(e.st, mt, v.V.(Scalar).T)
		// heap type safety for maps with integer-coded keys: the domain of a Go map is a finite set whose size is
		// the map's length (used with the counting functions of externals.vspec)
		if uf, ok := u.eng.specs.UFns["finiteSet"]; ok && e.facts != nil && e.pol != 0 && mapKeySort(mt) == SInt {
			if uc, ok2 := u.eng.specs.UFns["setCard"]; ok2 {
				u.c.DeclFun(uf.Name, uf.Args, uf.Ret)
				u.c.DeclFun(uc.Name, uc.Args, uc.Ret)
				lc := u.m.comp(e.st, u.mapLenName(mt), SArrI)
				ln := Select(lc, v.V.(Scalar).T)
				*e.facts = append(*e.facts, And(app(SBool, "finiteSet", dom), Eq(app(SInt, "setCard", dom), ln), Le(ln, BigLit(new(big.Int).Sub(pow2(63), big.NewInt(1))))))
			}
		}
		return SVal{V: Scalar{dom}}, nil
	case "mapvals": // mapvals(m): the value array of a map with scalar values
		v, err := e.eval(n.Args[0])
		if err != nil {
			return SVal{}, err
		}
		mt, ok := v.T.Underlying().(*types.Map)
		if !ok {
			return SVal{}, fmt.Errorf("mapvals of non-map")
		}
		lfs := leaves(mt.Elem())
		if len(lfs) != 1 {
			return SVal{}, fmt.Errorf("mapvals needs a scalar value type")
		}
		comp := u.m.comp(e.st, u.mapValName(mt, lfs[0].Path), ArrSort(SInt, ArrSort(mapKeySort(mt), lfs[0].Sort)))
		return SVal{V: Scalar{Select(comp, v.V.(Scalar).T)}}, nil
	case "elemsof": // elemsof(s): the backing array of a slice of scalars; element i is elemsof(s)[offof(s)+i]
		v, err := e.eval(n.Args[0])
		if err != nil {
			return SVal{}, err
		}
		sv, ok := v.V.(SliceV)
		if !ok {
			return SVal{}, fmt.Errorf("elemsof of %T", v.V)
		}
		elem := v.T.Underlying().(*types.Slice).Elem()
		lfs := leaves(elem)
		want := ""
		if len(n.Args) > 1 { // elemsof(s, "Field.Path"): the column of one scalar field of struct elements
			fl, ok := n.Args[1].(SStrLit)
			if !ok {
				return SVal{}, fmt.Errorf("elemsof field path must be a string")
			}
			want = "." + fl.V
		} else if len(lfs) != 1 {
			return SVal{}, fmt.Errorf("elemsof needs scalar elements or a field path")
		}
		p := PtrV{Base: sv.Arr, Obj: elem, Arr: true}
		for _, lf := range lfs {
			if want == "" || lf.Path == want {
				name, _ := compName(p, lf.Path)
				comp := u.m.comp(e.st, name, u.m.compSort(true, lf.Sort))
				return SVal{V: Scalar{Select(comp, sv.Arr)}}, nil
			}
		}
		return SVal{}, fmt.Errorf("elemsof: no scalar field %q", want)
	case "arrof": // arrof(s): the identity of the backing array of a slice (0 for a nil slice)
		v, err := e.eval(n.Args[0])
		if err != nil {
			return SVal{}, err
		}
		sv, ok := v.V.(SliceV)
		if !ok {
			return SVal{}, fmt.Errorf("arrof of %T", v.V)
		}
		return SVal{V: Scalar{sv.Arr}}, nil
	case "offof":
		v, err := e.eval(n.Args[0])
		if err != nil {
			return SVal{}, err
		}
		sv, ok := v.V.(SliceV)
		if !ok {
			return SVal{}, fmt.Errorf("offof of %T", v.V)
		}
		return SVal{V: Scalar{sv.Off}}, nil
	case "keyof": // keyof(a): the integer code of a fixed-size array value used as a map key
		t, err := e.evalTerm(n.Args[0])
		if err != nil {
			return SVal{}, err
		}
		if !strings.HasPrefix(string(t.Sort), "(Array ") {
			return SVal{V: Scalar{t}}, nil
		}
		return SVal{V: Scalar{u.arrKey(t)}}, nil
	case "allocmark": // allocmark(): the allocation counter of the current state (identifies a call)
		return SVal{V: Scalar{e.st.alloc}}, nil
	case "deref": // deref(p): the value a pointer designates
		v, err := e.eval(n.Args[0])
		if err != nil {
			return SVal{}, err
		}
		pv, ok := v.V.(PtrV)
		if !ok || v.T == nil {
			return SVal{}, fmt.Errorf("deref of non-pointer")
		}
		pt, ok := v.T.Underlying().(*types.Pointer)
		if !ok {
			return SVal{}, fmt.Errorf("deref of non-pointer type")
		}
		return SVal{V: u.loadNoAssume(e.st, pv), T: pt.Elem()}, nil
	case "fresh": // fresh(p): object allocated during this call
		v, err := e.eval(n.Args[0])
		if err != nil {
			return SVal{}, err
		}
		var base Term
		switch x := v.V.(type) {
		case PtrV:
			base = x.Base
		case SliceV:
			base = x.Arr
		case Scalar:
			base = x.T
		default:
			return SVal{}, fmt.Errorf("fresh of %T", v.V)
		}
		return SVal{V: Scalar{And(Ge(base, e.old.alloc), Lt(base, e.st.alloc))}}, nil
	case "evcount": // evcount("name"): number of ghost events so far
		tn, _ := n.Args[0].(SStrLit)
		key := "ev|" + tn.V + "|n"
		if t, ok := e.st.ghost[key]; ok {
			return SVal{V: Scalar{t}}, nil
		}
		return SVal{V: Scalar{u.ghostInit(key)}}, nil
	case "evarg": // evarg("name", k, i): k-th argument of the i-th event
		tn, _ := n.Args[0].(SStrLit)
		kl, ok := n.Args[1].(SIntLit)
		if !ok {
			return SVal{}, fmt.Errorf("evarg needs a literal argument position")
		}
		it, err := e.evalTerm(n.Args[2])
		if err != nil {
			return SVal{}, err
		}
		key := fmt.Sprintf("ev|%s|%d", tn.V, kl.V.Int64())
		arr, ok := e.st.ghost[key]
		if !ok {
			sorts, declared := u.eng.specs.EvDecl[tn.V]
			if !declared || int(kl.V.Int64()) >= len(sorts) {
				return SVal{}, fmt.Errorf("event %s argument %d is not declared (evdecl)", tn.V, kl.V.Int64())
			}
			arr = u.ghostArrInit(key, ArrSort(SInt, sorts[kl.V.Int64()]))
		}
		return SVal{V: Scalar{Select(arr, it)}}, nil
	case "ghost": // ghost("name"): current value of a ghost counter/trace
		tn, _ := n.Args[0].(SStrLit)
		if t, ok := e.st.ghost[tn.V]; ok {
			return SVal{V: Scalar{t}}, nil
		}
		return SVal{V: Scalar{u.ghostInit(tn.V)}}, nil
	case "typearg": // typearg(i, "pkg.T"): the i-th type argument of this instantiation of a generic function is pkg.T
		il, ok1 := n.Args[0].(SIntLit)
		tn, ok2 := n.Args[1].(SStrLit)
		if len(n.Args) != 2 || !ok1 || !ok2 {
			return SVal{}, fmt.Errorf("typearg(i, \"pkg.T\") expects an integer and a string literal")
		}
		if e.fn == nil {
			return SVal{}, fmt.Errorf("typearg outside a function contract")
		}
		ta := e.fn.TypeArgs()
		idx := int(il.V.Int64())
		if idx < 0 || idx >= len(ta) {
			return SVal{V: Scalar{TFalse}}, nil
		}
		if typeName(ta[idx]) == tn.V {
			return SVal{V: Scalar{TTrue}}, nil
		}
		return SVal{V: Scalar{TFalse}}, nil
	case "store": // store(a, i, v): SMT array update (for axioms and postconditions over sets/maps as values)
		if len(n.Args) != 3 {
			return SVal{}, fmt.Errorf("store(a, i, v) expects 3 arguments")
		}
		a, err := e.evalTerm(n.Args[0])
		if err != nil {
			return SVal{}, err
		}
		i, err := e.evalTerm(n.Args[1])
		if err != nil {
			return SVal{}, err
		}
		v, err := e.evalTerm(n.Args[2])
		if err != nil {
			return SVal{}, err
		}
		if a.Sort != ArrSort(i.Sort, v.Sort) {
			return SVal{}, fmt.Errorf("store: array of sort %s updated at %s with %s", a.Sort, i.Sort, v.Sort)
		}
		return SVal{V: Scalar{Store(a, i, v)}}, nil
	case "emptyintset": // the empty set of integer-coded keys
		srt := ArrSort(SInt, SBool)
		return SVal{V: Scalar{Term{fmt.Sprintf("((as const %s) false)", srt), srt}}}, nil
	case "visitedset": // visitedset(): the set of keys already yielded by the map iteration of the enclosing loop
		var key string
		for i := len(u.iterOrder) - 1; i >= 0; i-- {
			if _, ok := e.st.ghost[u.iterOrder[i]]; ok {
				key = u.iterOrder[i]
				break
			}
		}
		if key == "" {
			return SVal{}, fmt.Errorf("no active map iteration for visitedset()")
		}
		return SVal{V: Scalar{e.st.ghost[key]}}, nil
	case "visited": // visited(k): key already yielded by the (single) map iteration of the enclosing loop
		kv, err := e.evalTerm(n.Args[0])
		if err != nil {
			return SVal{}, err
		}
		var key string
		for i := len(u.iterOrder) - 1; i >= 0; i-- { // the most recently started iteration
			if _, ok := e.st.ghost[u.iterOrder[i]]; ok {
				key = u.iterOrder[i]
				break
			}
		}
		if len(n.Args) > 1 {
			tn, _ := n.Args[1].(SStrLit)
			for k := range e.st.ghost {
				if strings.HasPrefix(k, "iter|"+tn.V+"|") {
					key = k
				}
			}
		}
		if key == "" {
			return SVal{}, fmt.Errorf("no active map iteration for visited()")
		}
		return SVal{V: Scalar{Select(e.st.ghost[key], kv)}}, nil
	}
	// recursive specification functions
	if rf, ok := u.eng.specs.RecFns[n.Fn]; ok {
		if len(rf.Params) != len(n.Args) {
			return SVal{}, fmt.Errorf("function %s: %d arguments expected", n.Fn, len(rf.Params))
		}
		if err := u.declareRecFn(rf); err != nil {
			return SVal{}, err
		}
		var args []Term
		for i, a := range n.Args {
			t, err := e.evalTerm(a)
			if err != nil {
				return SVal{}, err
			}
			if t.Sort != rf.Sorts[i] {
				return SVal{}, fmt.Errorf("function %s: argument %d has sort %s, want %s", n.Fn, i, t.Sort, rf.Sorts[i])
			}
			args = append(args, t)
		}
		appT := app(rf.Ret, rf.Name, args...)
		// hint: state the one-step unfolding of every ground application (definitionally true); solvers
		// otherwise often fail to unfold a recursive function at a symbolic argument in a large context
		ground := true
		for _, a := range args {
			if strings.Contains(a.S, "_q") || strings.Contains(a.S, "rp_") {
				ground = false
			}
		}
		if ground && !e.noUnfold && u.discov == 0 && !u.unfolded[appT.S] {
			u.unfolded[appT.S] = true
			names := map[string]SVal{}
			for i, p := range rf.Params {
				names[p] = SVal{V: Scalar{args[i]}}
			}
			inner := &SpecEnv{u: u, st: e.st, old: e.old, names: names, noUnfold: true, fn: e.fn}
			if body, err := inner.evalTerm(rf.Body); err == nil {
				u.c.Assume(Eq(appT, body))
			}
		}
		return SVal{V: Scalar{appT}}, nil
	}
	// functions of the SMT preamble
	if bf, ok := preambleFns[n.Fn]; ok {
		if len(bf.Args) != len(n.Args) {
			return SVal{}, fmt.Errorf("function %s: %d arguments expected", n.Fn, len(bf.Args))
		}
		var args []Term
		for i, a := range n.Args {
			t, err := e.evalTerm(a)
			if err != nil {
				return SVal{}, err
			}
			if t.Sort != bf.Args[i] {
				return SVal{}, fmt.Errorf("function %s: argument %d has sort %s, want %s", n.Fn, i, t.Sort, bf.Args[i])
			}
			args = append(args, t)
		}
		return SVal{V: Scalar{app(bf.Ret, bf.Name, args...)}}, nil
	}
	// ghost heap functions
	if hf, ok := u.eng.specs.HFns[n.Fn]; ok {
		if len(n.Args) != 1 {
			return SVal{}, fmt.Errorf("heap function %s takes one argument", n.Fn)
		}
		t, err := e.evalTerm(n.Args[0])
		if err != nil {
			return SVal{}, err
		}
		comp := u.m.comp(e.st, "G|"+hf.Name, ArrSort(SInt, hf.Ret))
		return SVal{V: Scalar{Select(comp, t)}}, nil
	}
	// predicates (macro expansion)
	if pd, ok := u.eng.specs.Preds[n.Fn]; ok {
		if len(pd.Params) != len(n.Args) {
			return SVal{}, fmt.Errorf("predicate %s: %d arguments expected", n.Fn, len(pd.Params))
		}
		if e.depth > 40 {
			return SVal{}, fmt.Errorf("predicate expansion too deep (recursive predicate %s?)", n.Fn)
		}
		names := map[string]SVal{}
		for i, p := range pd.Params {
			v, err := e.eval(n.Args[i])
			if err != nil {
				return SVal{}, err
			}
			names[p] = v
		}
		return e.with(names).eval(pd.Body)
	}
	// uninterpreted functions
	if uf, ok := u.eng.specs.UFns[n.Fn]; ok {
		if len(uf.Args) != len(n.Args) {
			return SVal{}, fmt.Errorf("function %s: %d arguments expected", n.Fn, len(uf.Args))
		}
		u.c.DeclFun(uf.Name, uf.Args, uf.Ret)
		var args []Term
		for i, a := range n.Args {
			t, err := e.evalTerm(a)
			if err != nil {
				return SVal{}, err
			}
			if t.Sort != uf.Args[i] {
				return SVal{}, fmt.Errorf("function %s: argument %d has sort %s, want %s", n.Fn, i, t.Sort, uf.Args[i])
			}
			args = append(args, t)
		}
		return SVal{V: Scalar{app(uf.Ret, uf.Name, args...)}}, nil
	}
	return SVal{}, fmt.Errorf("unknown function %s in contract", n.Fn)
}

func (u *Unit) unboxNoAssume(pay Term, t types.Type) Value {
	if pt, ok := t.Underlying().(*types.Pointer); ok {
		return u.m.ptrFromTerm(pay, pt.Elem())
	}
	lfs := leaves(t)
	terms := make([]Term, len(lfs))
	for i, lf := range lfs {
		fn := fmt.Sprintf("unbox_%d_%d", u.m.typeID(t), i)
		u.c.DeclFun(fn, []Sort{SInt}, lf.Sort)
		terms[i] = app(lf.Sort, fn, pay)
	}
	if len(lfs) == 0 {
		return StructV{}
	}
	v, _ := u.m.unflatten(t, terms)
	return v
}

func (u *Unit) ghostArrInit(name string, sort Sort) Term {
	key := "ghost0|" + name
	if t, ok := u.m.heap0[key]; ok {
		return t
	}
	t := u.c.Fresh("ghost_"+name, sort)
	u.m.heap0[key] = t
	return t
}

func (u *Unit) ghostInit(name string) Term {
	key := "ghost0|" + name
	if t, ok := u.m.heap0[key]; ok {
		return t
	}
	t := u.c.Fresh("ghost_"+name, SInt)
	u.m.heap0[key] = t
	return t
}

// specEnvForUnit binds parameter (and result) names of the unit's function.
func (u *Unit) specEnvForUnit(st, old *State, results []Value) *SpecEnv {
	env := &SpecEnv{u: u, st: st, old: old, names: map[string]SVal{}}
	u.bindParams(env, u.spec, u.fn, u.fn.Signature, u.params, results)
	// captured variables of closures are visible by name (their current value)
	for i, fv := range u.fn.FreeVars {
		if i < len(u.freeVars) {
			if pv, ok := u.freeVars[i].(PtrV); ok {
				if _, taken := env.names[fv.Name()]; !taken {
					env.names[fv.Name()] = SVal{V: u.loadNoAssume(st, pv), T: fv.Type().(*types.Pointer).Elem()}
				}
			}
		}
	}
	return env
}

func (u *Unit) bindParams(env *SpecEnv, sp *FuncSpec, fn *ssa.Function, sig *types.Signature, args []Value, results []Value) {
	if fn != nil {
		env.fn = fn
	}
	// parameter names
	var pnames []string
	var ptypes []types.Type
	if fn != nil && len(fn.Params) > 0 {
		for _, p := range fn.Params {
			pnames = append(pnames, p.Name())
			ptypes = append(ptypes, p.Type())
		}
	} else {
		if sig.Recv() != nil {
			pnames = append(pnames, sig.Recv().Name())
			ptypes = append(ptypes, sig.Recv().Type())
		}
		for i := 0; i < sig.Params().Len(); i++ {
			pnames = append(pnames, sig.Params().At(i).Name())
			ptypes = append(ptypes, sig.Params().At(i).Type())
		}
	}
	if sp != nil && len(sp.Params) > 0 {
		for i := range sp.Params {
			if i < len(pnames) {
				pnames[i] = sp.Params[i]
			}
		}
	}
	for i := range pnames {
		if i < len(args) && pnames[i] != "" && pnames[i] != "_" {
			env.names[pnames[i]] = SVal{V: args[i], T: ptypes[i]}
		}
		if i < len(args) {
			env.names[fmt.Sprintf("arg%d", i)] = SVal{V: args[i], T: ptypes[i]}
		}
	}
	if results != nil {
		for i := 0; i < sig.Results().Len() && i < len(results); i++ {
			rt := sig.Results().At(i).Type()
			env.names[fmt.Sprintf("ret%d", i)] = SVal{V: results[i], T: rt}
			if nm := sig.Results().At(i).Name(); nm != "" && nm != "_" {
				env.names[nm] = SVal{V: results[i], T: rt}
			}
			if sp != nil && i < len(sp.Results) {
				env.names[sp.Results[i]] = SVal{V: results[i], T: rt}
			}
		}
		if sig.Results().Len() == 1 && len(results) == 1 {
			env.names["result"] = SVal{V: results[0], T: sig.Results().At(0).Type()}
		}
	}
}

var _ = token.NoPos

var preambleFns = map[string]*UFn{
	"str_bytes": {Name: "str_bytes", Args: []Sort{SStr}, Ret: SByt},
	"bytes_str": {Name: "bytes_str", Args: []Sort{SByt}, Ret: SStr},
	"bytes_len": {Name: "bytes_len", Args: []Sort{SByt}, Ret: SInt},
	"bytes_at":  {Name: "bytes_at", Args: []Sort{SByt, SInt}, Ret: SInt},
	"strlen":    {Name: "strlen", Args: []Sort{SStr}, Ret: SInt},
	"str_at":    {Name: "str_at", Args: []Sort{SStr, SInt}, Ret: SInt},
}

// declareRecFn emits the define-fun-rec of a recursive specification function (once per unit).
func (u *Unit) declareRecFn(rf *RecFn) error {
	if u.c.funs["rec:"+rf.Name] {
		return nil
	}
	u.c.funs["rec:"+rf.Name] = true
	names := map[string]SVal{}
	var params []string
	for i, p := range rf.Params {
		pn := "rp_" + rf.Name + "_" + p
		params = append(params, fmt.Sprintf("(%s %s)", pn, rf.Sorts[i]))
		names[p] = SVal{V: Scalar{Term{pn, rf.Sorts[i]}}}
	}
	env := &SpecEnv{u: u, st: u.entrySt, old: u.entrySt, names: names, fn: u.fn}
	body, err := env.evalTerm(rf.Body)
	if err != nil {
		return fmt.Errorf("recfn %s: %v", rf.Name, err)
	}
	if body.Sort != rf.Ret {
		return fmt.Errorf("recfn %s: body has sort %s, want %s", rf.Name, body.Sort, rf.Ret)
	}
	u.c.Raw(fmt.Sprintf("(define-fun-rec %s (%s) %s %s)", rf.Name, strings.Join(params, " "), rf.Ret, body.S))
	return nil
}

package main

// SMT layer: terms are strings with a sort; a Ctx accumulates a sequential script
// (declarations, definitions, assumptions). An obligation is a prefix of that script
// plus a goal. All Go integers are mathematical Ints with explicit wrap-around
// (mod 2^N), so Go semantics are exact and no Int<->BitVec bridge is needed.

import (
	"sort"
	"strconv"
	"runtime"
	"bytes"
	"context"
	"fmt"
	"math/big"
	"os"
	"os/exec"
	"path/filepath"
	"strings"
	"sync"
	"time"
)

type Sort string

const (
	SInt  Sort = "Int"
	SBool Sort = "Bool"
	SStr  Sort = "Str"
	SByt  Sort = "Bytes" // abstract content of a byte string
	SArrI Sort = "(Array Int Int)"
	SArrB Sort = "(Array Int Bool)"
)

func ArrSort(idx, val Sort) Sort { return Sort("(Array " + string(idx) + " " + string(val) + ")") }

type Term struct {
	S    string
	Sort Sort
}

func (t Term) String() string { return t.S }

var (
	TTrue  = Term{"true", SBool}
	TFalse = Term{"false", SBool}
)

func IntLit(n int64) Term {
	if n < 0 {
		return Term{fmt.Sprintf("(- %d)", -n), SInt}
	}
	return Term{fmt.Sprintf("%d", n), SInt}
}

func BigLit(n *big.Int) Term {
	if n.Sign() < 0 {
		return Term{"(- " + new(big.Int).Neg(n).String() + ")", SInt}
	}
	return Term{n.String(), SInt}
}

func app(sort Sort, op string, args ...Term) Term {
	var b strings.Builder
	b.WriteByte('(')
	b.WriteString(op)
	for _, a := range args {
		b.WriteByte(' ')
		b.WriteString(a.S)
	}
	b.WriteByte(')')
	return Term{b.String(), sort}
}

func And(ts ...Term) Term {
	var xs []Term
	for _, t := range ts {
		if t.S == "true" {
			continue
		}
		if t.S == "false" {
			return TFalse
		}
		xs = append(xs, t)
	}
	if len(xs) == 0 {
		return TTrue
	}
	if len(xs) == 1 {
		return xs[0]
	}
	return app(SBool, "and", xs...)
}

func Or(ts ...Term) Term {
	var xs []Term
	for _, t := range ts {
		if t.S == "false" {
			continue
		}
		if t.S == "true" {
			return TTrue
		}
		xs = append(xs, t)
	}
	if len(xs) == 0 {
		return TFalse
	}
	if len(xs) == 1 {
		return xs[0]
	}
	return app(SBool, "or", xs...)
}

func Not(t Term) Term {
	if t.S == "true" {
		return TFalse
	}
	if t.S == "false" {
		return TTrue
	}
	if strings.HasPrefix(t.S, "(not ") {
		return Term{t.S[5 : len(t.S)-1], SBool}
	}
	return app(SBool, "not", t)
}

func Imp(a, b Term) Term {
	if a.S == "true" {
		return b
	}
	if a.S == "false" || b.S == "true" {
		return TTrue
	}
	return app(SBool, "=>", a, b)
}

func Eq(a, b Term) Term {
	if a.S == b.S {
		return TTrue
	}
	if a.Sort == SInt {
		if t, ok := cmpLit(a, b, func(c int) bool { return c == 0 }); ok {
			return t
		}
	}
	return app(SBool, "=", a, b)
}
func Ne(a, b Term) Term { return Not(Eq(a, b)) }

func Ite(c, a, b Term) Term {
	if c.S == "true" {
		return a
	}
	if c.S == "false" {
		return b
	}
	if a.S == b.S {
		return a
	}
	return app(a.Sort, "ite", c, a, b)
}

func Add(a, b Term) Term {
	if a.S == "0" {
		return b
	}
	if b.S == "0" {
		return a
	}
	if x, ok := litVal(a); ok {
		if y, ok := litVal(b); ok {
			return BigLit(new(big.Int).Add(x, y))
		}
	}
	return app(SInt, "+", a, b)
}
func Sub(a, b Term) Term {
	if b.S == "0" {
		return a
	}
	if x, ok := litVal(a); ok {
		if y, ok := litVal(b); ok {
			return BigLit(new(big.Int).Sub(x, y))
		}
	}
	return app(SInt, "-", a, b)
}
func Mul(a, b Term) Term {
	if a.S == "1" {
		return b
	}
	if b.S == "1" {
		return a
	}
	if x, ok := litVal(a); ok {
		if y, ok := litVal(b); ok {
			return BigLit(new(big.Int).Mul(x, y))
		}
	}
	return app(SInt, "*", a, b)
}
func cmpLit(a, b Term, f func(int) bool) (Term, bool) {
	if x, ok := litVal(a); ok {
		if y, ok := litVal(b); ok {
			if f(x.Cmp(y)) {
				return TTrue, true
			}
			return TFalse, true
		}
	}
	return Term{}, false
}
func Lt(a, b Term) Term {
	if t, ok := cmpLit(a, b, func(c int) bool { return c < 0 }); ok {
		return t
	}
	return app(SBool, "<", a, b)
}
func Le(a, b Term) Term {
	if t, ok := cmpLit(a, b, func(c int) bool { return c <= 0 }); ok {
		return t
	}
	return app(SBool, "<=", a, b)
}
func Gt(a, b Term) Term {
	if t, ok := cmpLit(a, b, func(c int) bool { return c > 0 }); ok {
		return t
	}
	return app(SBool, ">", a, b)
}
func Ge(a, b Term) Term {
	if t, ok := cmpLit(a, b, func(c int) bool { return c >= 0 }); ok {
		return t
	}
	return app(SBool, ">=", a, b)
}

func Select(a, i Term) Term {
	// sort of result: strip "(Array idx val)"
	return app(arrValSort(a.Sort), "select", a, i)
}
func Store(a, i, v Term) Term { return app(a.Sort, "store", a, i, v) }

// arrValSort returns the value sort of an array sort "(Array I V)".
func arrValSort(s Sort) Sort {
	str := string(s)
	if !strings.HasPrefix(str, "(Array ") {
		panic("not an array sort: " + str)
	}
	inner := str[len("(Array ") : len(str)-1]
	// split first sort
	depth := 0
	for i := 0; i < len(inner); i++ {
		switch inner[i] {
		case '(':
			depth++
		case ')':
			depth--
		case ' ':
			if depth == 0 {
				return Sort(inner[i+1:])
			}
		}
	}
	panic("bad array sort " + str)
}

func arrIdxSort(s Sort) Sort {
	str := string(s)
	inner := str[len("(Array ") : len(str)-1]
	depth := 0
	for i := 0; i < len(inner); i++ {
		switch inner[i] {
		case '(':
			depth++
		case ')':
			depth--
		case ' ':
			if depth == 0 {
				return Sort(inner[:i])
			}
		}
	}
	panic("bad array sort " + str)
}

func litVal(t Term) (*big.Int, bool) {
	s := t.S
	if t.Sort != SInt || s == "" {
		return nil, false
	}
	neg := false
	if strings.HasPrefix(s, "(- ") && strings.HasSuffix(s, ")") {
		neg = true
		s = s[3 : len(s)-1]
	}
	for _, c := range s {
		if c < '0' || c > '9' {
			return nil, false
		}
	}
	n, ok := new(big.Int).SetString(s, 10)
	if !ok {
		return nil, false
	}
	if neg {
		n.Neg(n)
	}
	return n, true
}

func pow2(n uint) *big.Int { return new(big.Int).Lsh(big.NewInt(1), n) }

// WrapU / WrapS give Go's wrap-around for an N-bit unsigned / signed result.
func WrapU(t Term, bits uint) Term {
	if v, ok := litVal(t); ok {
		return BigLit(new(big.Int).Mod(v, pow2(bits)))
	}
	return app(SInt, "mod", t, BigLit(pow2(bits)))
}
func WrapS(t Term, bits uint) Term {
	half := pow2(bits - 1)
	if v, ok := litVal(t); ok {
		r := new(big.Int).Add(v, half)
		r.Mod(r, pow2(bits))
		return BigLit(r.Sub(r, half))
	}
	return app(SInt, "-", app(SInt, "mod", app(SInt, "+", t, BigLit(half)), BigLit(pow2(bits))), BigLit(half))
}

// ---------------------------------------------------------------------------------------------

type Ctx struct {
	lines   []string
	n       int
	decl    map[string]Sort
	sorts   map[string]bool
	funs    map[string]bool
	strLits map[string]Term
	notes   []string // unsupported constructs / unmodelled calls (evidence)
}

func NewCtx() *Ctx {
	c := &Ctx{decl: map[string]Sort{}, sorts: map[string]bool{}, funs: map[string]bool{}, strLits: map[string]Term{}}
	c.lines = append(c.lines,
		"(set-option :produce-models true)",
		"(set-logic ALL)",
		"(declare-sort Str 0)",
		"(declare-sort Bytes 0)",
		"(declare-fun strlen (Str) Int)",
		"(declare-fun str_at (Str Int) Int)",
		"(declare-fun bytes_content ((Array Int Int) Int Int) Bytes)",
		"(declare-fun bytes_len (Bytes) Int)",
		"(declare-fun bytes_at (Bytes Int) Int)",
		"(declare-fun str_bytes (Str) Bytes)",
		// element index of a slice view: offset + i, kept as an uninterpreted application so that
		// E-matching sees a stable shape (arithmetic normalisation would destroy the pattern)
		"(declare-fun sidx (Int Int) Int)",
		"(assert (forall ((o Int) (i Int)) (! (= (sidx o i) (+ o i)) :pattern ((sidx o i)))))",
		"(declare-fun bytes_str (Bytes) Str)",
		// Go truncated division and remainder for signed operands
		"(define-fun godiv ((a Int) (b Int)) Int (ite (>= a 0) (ite (> b 0) (div a b) (- (div a (- b)))) (ite (> b 0) (- (div (- a) b)) (div (- a) (- b)))))",
		"(define-fun gorem ((a Int) (b Int)) Int (- a (* b (godiv a b))))",
	)
	return c
}

func (c *Ctx) Len() int { return len(c.lines) }

func (c *Ctx) Raw(line string) { c.lines = append(c.lines, line) }

// nameSalt (GOVC_SALT) perturbs every generated symbol name. Solver heuristics depend on names, so running a
// check under a few salts (tools/stability.sh) shows which proofs only succeed by luck of naming.
var nameSalt = os.Getenv("GOVC_SALT")

func (c *Ctx) Fresh(prefix string, s Sort) Term {
	c.n++
	name := fmt.Sprintf("%s%s!%d", sanitize(prefix), nameSalt, c.n)
	c.lines = append(c.lines, fmt.Sprintf("(declare-const %s %s)", name, s))
	c.decl[name] = s
	return Term{name, s}
}

func (c *Ctx) DeclFun(name string, args []Sort, ret Sort) {
	if c.funs[name] {
		return
	}
	c.funs[name] = true
	var as []string
	for _, a := range args {
		as = append(as, string(a))
	}
	c.lines = append(c.lines, fmt.Sprintf("(declare-fun %s (%s) %s)", name, strings.Join(as, " "), ret))
}

func (c *Ctx) DeclSort(name string) {
	if c.sorts[name] {
		return
	}
	c.sorts[name] = true
	c.lines = append(c.lines, fmt.Sprintf("(declare-sort %s 0)", name))
}

// Def names a (possibly large) term so later uses stay small.
func (c *Ctx) Def(prefix string, t Term) Term {
	if len(t.S) < 48 {
		return t
	}
	c.n++
	name := fmt.Sprintf("%s!%d", sanitize(prefix), c.n)
	c.lines = append(c.lines, fmt.Sprintf("(define-fun %s () %s %s)", name, t.Sort, t.S))
	return Term{name, t.Sort}
}

func (c *Ctx) Assume(t Term) {
	if t.S == "true" {
		return
	}
	c.lines = append(c.lines, "(assert "+t.S+")")
}

func (c *Ctx) Note(s string) {
	for _, n := range c.notes {
		if n == s {
			return
		}
	}
	c.notes = append(c.notes, s)
}

func (c *Ctx) StrLit(s string) Term {
	if t, ok := c.strLits[s]; ok {
		return t
	}
	t := c.Fresh("strlit", SStr)
	c.Assume(Eq(app(SInt, "strlen", t), IntLit(int64(len(s)))))
	// distinct from earlier literals with different text
	var others []string
	for o := range c.strLits {
		if o != s {
			others = append(others, o)
		}
	}
	sort.Strings(others) // deterministic script text
	for _, o := range others {
		c.Assume(Ne(t, c.strLits[o]))
	}
	if len(s) <= 8 {
		for i := 0; i < len(s); i++ {
			c.Assume(Eq(app(SInt, "str_at", t, IntLit(int64(i))), IntLit(int64(s[i]))))
		}
	}
	c.strLits[s] = t
	return t
}

func sanitize(s string) string {
	var b strings.Builder
	for _, r := range s {
		switch {
		case r >= 'a' && r <= 'z', r >= 'A' && r <= 'Z', r >= '0' && r <= '9', r == '_', r == '.':
			b.WriteRune(r)
		default:
			b.WriteByte('_')
		}
	}
	if b.Len() == 0 {
		return "v"
	}
	return b.String()
}

// ---------------------------------------------------------------------------------------------
// solver racing

type SolveResult struct {
	Status string // unsat | sat | unknown | timeout | error
	Solver string
	Ms     int64
	Output string
	Model  map[string]string
}

type solverSpec struct {
	name string
	argv func(file string, timeoutS int) []string
}

var solvers = []solverSpec{
	{"z3-4.8.12", func(f string, t int) []string { return []string{"/usr/bin/z3", fmt.Sprintf("-T:%d", t), f} }},
	{"z3-5.1.0", func(f string, t int) []string { return []string{"z3-new", fmt.Sprintf("-T:%d", t), f} }},
	{"cvc5-1.0", func(f string, t int) []string {
		return []string{"cvc5", "--lang=smt2", fmt.Sprintf("--tlimit=%d", t*1000), f}
	}},
	// same solver, E-matching only (no conflict-based instantiation): decides some quantified invariant
	// steps in a fraction of the time of the default strategy
	{"cvc5-1.0-ematch", func(f string, t int) []string {
		return []string{"cvc5", "--lang=smt2", "--no-cbqi", fmt.Sprintf("--tlimit=%d", t*1000), f}
	}},
}

// procSem bounds the number of solver processes running at once: the number of CPUs, or GOVC_PROCS when several
// checks run side by side (the corpus runners set it so that the machine is not oversubscribed; solver time limits
// are per process run time, so queueing does not eat into them).
var procSem = make(chan struct{}, numProcs())

func numProcs() int {
	if v := os.Getenv("GOVC_PROCS"); v != "" {
		if n, err := strconv.Atoi(v); err == nil && n >= 1 {
			return n
		}
	}
	if n := runtime.NumCPU(); n >= 1 {
		return n
	}
	return 4
}

var workDir string

func initWorkDir() {
	base := os.Getenv("TMPDIR")
	if base == "" {
		base = "/tmp"
	}
	d, err := os.MkdirTemp(base, "govc-")
	if err != nil {
		panic(err)
	}
	workDir = d
}

func cleanupWorkDir() {
	if workDir != "" {
		os.RemoveAll(workDir)
	}
}

var fileCtr struct {
	sync.Mutex
	n int
}

// Solve races the installed solvers on one script. getValues are terms whose values are
// requested when the result is sat.
func Solve(script string, getValues []string, timeoutS int, requireAll bool) SolveResult {
	fileCtr.Lock()
	fileCtr.n++
	id := fileCtr.n
	fileCtr.Unlock()
	file := filepath.Join(workDir, fmt.Sprintf("q%d.smt2", id))
	full := script + "(check-sat)\n"
	if len(getValues) > 0 {
		full += "(get-value (" + strings.Join(getValues, " ") + "))\n"
	}
	if err := os.WriteFile(file, []byte(full), 0o644); err != nil {
		return SolveResult{Status: "error", Output: err.Error()}
	}
	defer os.Remove(file)

	ctx, cancel := context.WithCancel(context.Background())
	defer cancel()
	type res struct {
		SolveResult
	}
	ch := make(chan SolveResult, len(solvers))
	start := time.Now()
	for _, s := range solvers {
		s := s
		go func() {
			procSem <- struct{}{}
			defer func() { <-procSem }()
			if ctx.Err() != nil {
				ch <- SolveResult{Status: "cancelled", Solver: s.name}
				return
			}
			argv := s.argv(file, timeoutS)
			cctx, ccancel := context.WithTimeout(ctx, time.Duration(timeoutS+2)*time.Second)
			defer ccancel()
			cmd := exec.CommandContext(cctx, argv[0], argv[1:]...)
			var out bytes.Buffer
			cmd.Stdout = &out
			cmd.Stderr = &out
			t0 := time.Now()
			_ = cmd.Run()
			ms := time.Since(t0).Milliseconds()
			o := out.String()
			first := ""
			for _, ln := range strings.Split(o, "\n") {
				ln = strings.TrimSpace(ln)
				if ln == "" || strings.HasPrefix(ln, "WARNING") {
					continue // z3 prints pattern warnings before the answer
				}
				first = ln
				break
			}
			st := "unknown"
			switch {
			case first == "unsat":
				st = "unsat"
			case first == "sat":
				st = "sat"
			case first == "timeout" || cctx.Err() == context.DeadlineExceeded:
				st = "timeout"
			case first == "unknown":
				st = "unknown"
			case ctx.Err() != nil:
				st = "cancelled"
			default:
				if strings.Contains(o, "error") || strings.Contains(o, "Error") {
					st = "error"
				}
			}
			ch <- SolveResult{Status: st, Solver: s.name, Ms: ms, Output: o}
		}()
	}
	var best SolveResult
	best.Status = "unknown"
	var outs []string
	got := map[string]string{}
	for i := 0; i < len(solvers); i++ {
		r := <-ch
		if r.Status == "cancelled" {
			continue
		}
		got[r.Solver] = r.Status
		outs = append(outs, r.Solver+": "+firstLine(r.Output))
		if r.Status == "unsat" || r.Status == "sat" {
			if best.Status == "unsat" || best.Status == "sat" {
				if best.Status != r.Status {
					return SolveResult{Status: "error", Output: "solver disagreement: " + strings.Join(outs, "; ")}
				}
				continue
			}
			best = r
			if !requireAll {
				cancel()
				break
			}
		} else if best.Status != "unsat" && best.Status != "sat" {
			if r.Status == "timeout" || best.Status == "unknown" {
				best.Status = r.Status
			}
			if r.Status == "error" && best.Output == "" {
				best.Output = r.Output
			}
		}
	}
	if best.Status != "unsat" && best.Status != "sat" {
		best.Output = strings.Join(outs, "; ")
		best.Ms = time.Since(start).Milliseconds()
	}
	if best.Status == "sat" && len(getValues) > 0 {
		best.Model = parseGetValue(best.Output)
	}
	return best
}

func firstLine(s string) string {
	s = strings.TrimSpace(s)
	if i := strings.IndexByte(s, '\n'); i >= 0 {
		return s[:i]
	}
	return s
}

// parseGetValue parses "((t1 v1) (t2 v2))" after the first line into a map.
func parseGetValue(out string) map[string]string {
	i := strings.IndexByte(out, '\n')
	if i < 0 {
		return nil
	}
	s := strings.TrimSpace(out[i+1:])
	m := map[string]string{}
	toks := sexpTokens(s)
	pos := 0
	var parse func() string
	parse = func() string {
		if pos >= len(toks) {
			return ""
		}
		t := toks[pos]
		pos++
		if t != "(" {
			return t
		}
		var parts []string
		for pos < len(toks) && toks[pos] != ")" {
			parts = append(parts, parse())
		}
		pos++
		return "(" + strings.Join(parts, " ") + ")"
	}
	if len(toks) == 0 || toks[0] != "(" {
		return m
	}
	pos = 1
	for pos < len(toks) && toks[pos] == "(" {
		pos++
		k := parse()
		v := parse()
		if pos < len(toks) && toks[pos] == ")" {
			pos++
		}
		m[k] = v
	}
	return m
}

func sexpTokens(s string) []string {
	var toks []string
	i := 0
	for i < len(s) {
		c := s[i]
		switch {
		case c == '(' || c == ')':
			toks = append(toks, string(c))
			i++
		case c == ' ' || c == '\n' || c == '\t' || c == '\r':
			i++
		case c == '|':
			j := i + 1
			for j < len(s) && s[j] != '|' {
				j++
			}
			toks = append(toks, s[i:j+1])
			i = j + 1
		case c == '"':
			j := i + 1
			for j < len(s) && s[j] != '"' {
				j++
			}
			toks = append(toks, s[i:j+1])
			i = j + 1
		default:
			j := i
			for j < len(s) && !strings.ContainsRune("() \n\t\r", rune(s[j])) {
				j++
			}
			toks = append(toks, s[i:j])
			i = j
		}
	}
	return toks
}

// modelInt parses an SMT integer value "5" or "(- 5)".
func modelInt(v string) (*big.Int, bool) {
	return litVal(Term{strings.TrimSpace(v), SInt})
}

// ElemIdx is the index of element i in a slice view with offset off.
func ElemIdx(off, i Term) Term {
	if off.S == "0" {
		return i
	}
	if x, ok := litVal(off); ok {
		if y, ok := litVal(i); ok {
			return BigLit(new(big.Int).Add(x, y))
		}
	}
	return app(SInt, "sidx", off, i)
}

package main

import (
	"os"
	"fmt"
	"go/token"
	"go/types"
	"sort"
	"strings"

	"golang.org/x/tools/go/ssa"
)

// applySpec uses a callee's contract at a call site: assert requires, havoc assigns, assume ensures.
func (fr *Frame) applySpec(sp *FuncSpec, fn *ssa.Function, name string, args []Value, sig *types.Signature, st *State, pc Term, pos token.Pos, resT types.Type, external bool) Value {
	u := fr.u
	if external {
		u.extUsed[sp.Key] = true
	} else {
		u.extUsed["contract:"+shortFn(name)] = true
	}
	old := st.clone()
	env := &SpecEnv{u: u, st: old, old: old, names: map[string]SVal{}}
	u.bindParams(env, sp, fn, sig, args, nil)
	for _, rq := range sp.Requires {
		t, err := env.evalGoal(rq.E)
		if err != nil {
			u.unsupportedf("requires %q of %s at %s: %v", rq.Text, shortFn(name), posString(u.eng.prog, pos), err)
			continue
		}
		u.oblige(fr, "pre", pos, fmt.Sprintf("%s requires %s", lastSeg(stripTypeArgs(name)), rq.Text), pc, t)
	}
	// havoc the assigns footprint
	comps, all, err := u.eng.resolveAssigns(sp, fn, false)
	if err != nil {
		u.unsupportedf("assigns of %s: %v", shortFn(name), err)
	}
	if all {
		u.unsupportedf("assigns * of %s: whole-heap havoc not supported", shortFn(name))
	}
	if len(comps) > 0 {
		if u.spec != nil && fr.parent == nil || true {
			u.frameCheckComps(fr, pc, comps, pos, shortFn(name))
		}
	}
	for _, cn := range comps {
		cur := u.m.comp(st, cn.Name, cn.Sort)
		_ = cur
		u.m.noteWrite(cn.Name, Term{})
		st.heap[cn.Name] = u.c.Fresh("hv_"+cn.Name, cn.Sort)
	}
	// the callee may allocate: the allocation counter moves before the havoced values are typed, so that a
	// havoced reference may designate an object the callee allocated (typing it against the old counter made
	// "ensures fresh(self.f)" contradictory and the code after the call unreachable)
	na := u.c.Fresh("alloc", SInt)
	u.c.Assume(Ge(na, st.alloc))
	st.alloc = na
	// object-precise footprints: self.<fields> (fields of the receiver object only) and mapobj(<expr>)
	// (entries of one map object only)
	for _, item := range sp.Assigns {
		switch {
		case strings.HasPrefix(item, "self."):
			rp, ok := args[0].(PtrV)
			if !ok || len(args) == 0 {
				u.unsupportedf("assigns %s of %s: receiver is not a pointer", item, shortFn(name))
				continue
			}
			q := rp
			cur := rp.pointee()
			bad := false
			for _, f := range strings.Split(strings.TrimPrefix(item, "self."), ".") {
				stt, ok := cur.Underlying().(*types.Struct)
				if !ok {
					bad = true
					break
				}
				found := false
				for i := 0; i < stt.NumFields(); i++ {
					if stt.Field(i).Name() == f {
						q.Path = append(append([]int{}, q.Path...), i)
						cur = stt.Field(i).Type()
						found = true
						break
					}
				}
				if !found {
					bad = true
					break
				}
			}
			if bad {
				u.unsupportedf("assigns %s of %s: cannot resolve", item, shortFn(name))
				continue
			}
			u.frameCheckPtr(fr, st, pc, q, pos, shortFn(name))
			u.m.StoreVal(st, q, u.m.FreshValue(st, "hv_self", cur))
		case strings.HasPrefix(item, "mapobj(") && strings.HasSuffix(item, ")"):
			ex, err := ParseSpecExpr(item[7 : len(item)-1])
			if err != nil {
				u.unsupportedf("assigns %s of %s: %v", item, shortFn(name), err)
				continue
			}
			mv, err := env.eval(ex)
			if err != nil || mv.T == nil {
				u.unsupportedf("assigns %s of %s: %v", item, shortFn(name), err)
				continue
			}
			mt, ok := mv.T.Underlying().(*types.Map)
			ms, ok2 := mv.V.(Scalar)
			if !ok || !ok2 {
				u.unsupportedf("assigns %s of %s: not a map", item, shortFn(name))
				continue
			}
			u.havocMapObject(fr, st, pc, mt, ms.T, pos, shortFn(name))
		}
	}
	for _, g := range sp.Assigns {
		if strings.HasPrefix(g, "ghost:") {
			k := strings.TrimPrefix(g, "ghost:")
			if _, ok := st.ghost[k]; !ok {
				st.ghost[k] = u.ghostInit(k)
			}
			st.ghost[k] = u.c.Fresh("ghost_"+k, SInt)
		}
	}
	for _, cn := range comps {
		if u.m.refKind[cn.Name] {
			u.m.refAxiom(st.heap[cn.Name], st.alloc)
		}
	}
	// ghost events: the call itself is the event
	for _, ev := range sp.Events {
		if ev.When != nil {
			continue // conditional events are recorded once the results are known (below)
		}
		nkey := "ev|" + ev.Name + "|n"
		cnt, ok := st.ghost[nkey]
		if !ok {
			cnt = u.ghostInit(nkey)
		}
		for k, a := range ev.Args {
			t, err := env.evalTerm(a)
			if err != nil {
				u.unsupportedf("event %s argument %d: %v", ev.Name, k, err)
				continue
			}
			akey := fmt.Sprintf("ev|%s|%d", ev.Name, k)
			arr, ok := st.ghost[akey]
			if !ok {
				arr = u.ghostArrInit(akey, ArrSort(SInt, t.Sort))
			}
			st.ghost[akey] = u.c.Def("evarg", Store(arr, cnt, t))
		}
		st.ghost[nkey] = u.c.Def("evn", Add(cnt, IntLit(1)))
	}
	// results
	var results []Value
	n := sig.Results().Len()
	for i := 0; i < n; i++ {
		results = append(results, u.m.FreshValue(st, "ret_"+lastSeg(stripTypeArgs(name)), sig.Results().At(i).Type()))
	}
	penv := &SpecEnv{u: u, st: st, old: old, names: map[string]SVal{}}
	u.bindParams(penv, sp, fn, sig, args, results)
	for _, ev := range sp.Events {
		if ev.When == nil {
			continue
		}
		cond, err := penv.evalBool(ev.When)
		if err != nil {
			u.unsupportedf("event %s condition: %v", ev.Name, err)
			continue
		}
		nkey := "ev|" + ev.Name + "|n"
		cnt, ok := st.ghost[nkey]
		if !ok {
			cnt = u.ghostInit(nkey)
		}
		for k, a := range ev.Args {
			t, err := penv.evalTerm(a)
			if err != nil {
				u.unsupportedf("event %s argument %d: %v", ev.Name, k, err)
				continue
			}
			akey := fmt.Sprintf("ev|%s|%d", ev.Name, k)
			arr, ok := st.ghost[akey]
			if !ok {
				arr = u.ghostArrInit(akey, ArrSort(SInt, t.Sort))
			}
			st.ghost[akey] = u.c.Def("evarg", Ite(cond, Store(arr, cnt, t), arr))
		}
		st.ghost[nkey] = u.c.Def("evn", Ite(cond, Add(cnt, IntLit(1)), cnt))
	}
	for _, en := range append(append([]Clause{}, sp.Ensures...), sp.Assumed...) {
		if en.Kind == "assumes" {
			u.extUsed["assumed-clause:"+shortFn(name)+": "+en.Text] = true
		}
		t, err := penv.evalHyp(en.E)
		if err != nil {
			if strings.HasPrefix(err.Error(), "unknown name") {
				// clause about the callee's own locals (ghost use): proved inside the callee, not usable here
				if os.Getenv("GOVC_DEBUG_SPEC") != "" {
					fmt.Fprintf(os.Stderr, "skipped clause %q of %s: %v\n", en.Text, shortFn(name), err)
				}
				continue
			}
			u.unsupportedf("ensures %q of %s: %v", en.Text, shortFn(name), err)
			continue
		}
		u.c.Assume(Imp(pc, t))
	}
	switch n {
	case 0:
		return TupleV{}
	case 1:
		return results[0]
	}
	return TupleV{V: results}
}

type compRef struct {
	Name string
	Sort Sort
}

// resolveAssigns turns the assigns items of a contract into component names.
//   T.f.g          fields below a struct type (all leaves)
//   elems(T)       elements of arrays/slices of T
//   mapof(M)       a map type, e.g. mapof(map[common.Address]bool)
//   hfn:name       a ghost heap function
func (eng *Engine) resolveAssigns(sp *FuncSpec, fn *ssa.Function, forUnit bool) ([]compRef, bool, error) {
	var out []compRef
	for _, item := range sp.Assigns {
		switch {
		case item == "*":
			return nil, true, nil
		case strings.HasPrefix(item, "ghost:"):
			continue
		case strings.HasPrefix(item, "mapobj("):
			continue
		case strings.HasPrefix(item, "hfn:"):
			h := eng.specs.HFns[strings.TrimPrefix(item, "hfn:")]
			if h == nil {
				return nil, false, fmt.Errorf("unknown heap function %s", item)
			}
			out = append(out, compRef{"G|" + h.Name, ArrSort(SInt, h.Ret)})
		case strings.HasPrefix(item, "elems(") && strings.HasSuffix(item, ")"):
			t, err := eng.resolveType(item[6 : len(item)-1])
			if err != nil {
				return nil, false, err
			}
			p := PtrV{Obj: t, Arr: true}
			for _, lf := range leaves(t) {
				n, _ := compName(p, lf.Path)
				out = append(out, compRef{n, ArrSort(SInt, ArrSort(SInt, lf.Sort))})
			}
		case strings.HasPrefix(item, "mapof(") && strings.HasSuffix(item, ")"):
			t, err := eng.resolveType(item[6 : len(item)-1])
			if err != nil {
				return nil, false, err
			}
			mt, ok := t.Underlying().(*types.Map)
			if !ok {
				return nil, false, fmt.Errorf("%s is not a map type", item)
			}
			ks := mapKeySort(mt)
			out = append(out, compRef{"MD|" + typeName(mt) + "|", ArrSort(SInt, ArrSort(ks, SBool))})
			out = append(out, compRef{"ML|" + typeName(mt) + "|", SArrI})
			for _, lf := range leaves(mt.Elem()) {
				out = append(out, compRef{"MV|" + typeName(mt) + "|" + lf.Path, ArrSort(SInt, ArrSort(ks, lf.Sort))})
			}
		default:
			// T.f.g : find the longest prefix that resolves to a type
			parts := strings.Split(item, ".")
			var t types.Type
			var rest []string
			if parts[0] == "self" {
				if !forUnit {
					continue // at call sites self.* is resolved against the actual receiver (object-precise)
				}
				if fn != nil && len(fn.Params) > 0 {
					// self.f.g : relative to the (instantiated) receiver type of the function
					if pt, ok := fn.Params[0].Type().Underlying().(*types.Pointer); ok {
						t, rest = pt.Elem(), parts[1:]
					}
				}
			}
			if t == nil {
			for i := len(parts); i >= 1; i-- {
				tt, err := eng.resolveType(strings.Join(parts[:i], "."))
				if err == nil {
					t, rest = tt, parts[i:]
					break
				}
			}
			}
			if t == nil {
				return nil, false, fmt.Errorf("cannot resolve assigns item %q", item)
			}
			p := PtrV{Obj: t}
			cur := t
			for _, f := range rest {
				stt, ok := cur.Underlying().(*types.Struct)
				if !ok {
					return nil, false, fmt.Errorf("assigns %q: %s is not a struct", item, typeName(cur))
				}
				found := false
				for i := 0; i < stt.NumFields(); i++ {
					if stt.Field(i).Name() == f {
						p.Path = append(p.Path, i)
						cur = stt.Field(i).Type()
						found = true
						break
					}
				}
				if !found {
					return nil, false, fmt.Errorf("assigns %q: no field %s", item, f)
				}
			}
			for _, lf := range leaves(cur) {
				n, _ := compName(p, lf.Path)
				out = append(out, compRef{n, ArrSort(SInt, lf.Sort)})
			}
		}
	}
	return out, false, nil
}

// frameCheck: a store inside a function under contract must hit a fresh object or a component
// listed in its assigns clause.
func (u *Unit) frameCheck(fr *Frame, st *State, pc Term, p PtrV, pos token.Pos) {
	if u.spec == nil || u.discov > 0 || u.spec.Opts["frame"] == "off" {
		return
	}
	lfs := leaves(p.pointee())
	if p.Sub != nil {
		q := p
		q.Sub = nil
		lfs = leaves(q.pointee())
		p = q
	}
	if p.Arr && p.Idx == nil {
		lfs = []Leaf{{Path: ""}}
	}
	allowed := u.assignSet()
	if allowed == nil {
		return // assigns *
	}
	need := false
	for _, lf := range lfs {
		n, _ := compName(p, lf.Path)
		if !allowed[n] {
			need = true
		}
	}
	if need {
		u.oblige(fr, "frame", pos, "", pc, Ge(p.Base, u.entrySt.alloc))
	}
}

// frameCheckMap: a write to (or delete from) a map inside a function under contract must hit a map allocated
// by this call or a map type listed in its assigns clause (mapof(M) / mapobj(expr)).
func (u *Unit) frameCheckMap(fr *Frame, pc Term, mt *types.Map, mref Term, pos token.Pos) {
	if u.spec == nil || u.discov > 0 || u.spec.Opts["frame"] == "off" || !u.spec.HasAssigns && len(u.spec.Assigns) == 0 && false {
		return
	}
	allowed := u.assignSet()
	if allowed == nil {
		return
	}
	if allowed[u.mapDomName(mt)] {
		return
	}
	u.oblige(fr, "frame", pos, "map write", pc, Ge(mref, u.entrySt.alloc))
}

func (u *Unit) frameCheckComps(fr *Frame, pc Term, comps []compRef, pos token.Pos, callee string) {
	if u.spec == nil || u.discov > 0 || u.spec.Opts["frame"] == "off" {
		return
	}
	allowed := u.assignSet()
	if allowed == nil {
		return
	}
	for _, c := range comps {
		if strings.HasPrefix(c.Name, "G|") {
			continue // ghost heap functions of opaque dependency objects are not part of the frame
		}
		if strings.HasPrefix(c.Name, "E|") && !strings.Contains(callee, "rolling-shutter") && !strings.HasPrefix(callee, "(*keyper") && !strings.HasPrefix(callee, "keyper") {
			continue // element writes of dependency functions (sort, copy helpers) are not tracked per object
		}
		if !allowed[c.Name] {
			u.oblige(fr, "frame", pos, fmt.Sprintf("callee %s assigns %s", callee, c.Name), pc, TFalse)
			return
		}
	}
}

var assignSetCache = map[string]map[string]bool{}

func (u *Unit) assignSet() map[string]bool {
	if u.assignSetDone {
		return u.assignSetVal
	}
	ck := ""
	_ = ck
	if false {
		return nil
	}
	comps, all, err := u.eng.resolveAssigns(u.spec, u.fn, true)
	if err != nil {
		u.unsupportedf("assigns of unit: %v", err)
	}
	if all {
		u.assignSetDone, u.assignSetVal = true, nil
		return nil
	}
	s := map[string]bool{}
	for _, c := range comps {
		s[c.Name] = true
	}
	for _, item := range u.spec.Assigns {
		if strings.HasPrefix(item, "mapobj(") && strings.HasSuffix(item, ")") && u.entrySt != nil {
			if ex, err := ParseSpecExpr(item[7 : len(item)-1]); err == nil {
				env := &SpecEnv{u: u, st: u.entrySt, old: u.entrySt, names: map[string]SVal{}, fn: u.fn}
				u.bindParams(env, u.spec, u.fn, u.fn.Signature, u.params, nil)
				if mv, err := env.eval(ex); err == nil && mv.T != nil {
					if mt, ok := mv.T.Underlying().(*types.Map); ok {
						s[u.mapDomName(mt)] = true
						s[u.mapLenName(mt)] = true
						for _, lf := range leaves(mt.Elem()) {
							s[u.mapValName(mt, lf.Path)] = true
						}
					}
				}
			}
		}
	}
	u.assignSetDone, u.assignSetVal = true, s
	return s
}

// knownExternal: hook for externals that need engine-level modelling (none yet beyond specs).
func (fr *Frame) knownExternal(fn *ssa.Function, full string, args []Value, st *State, pc Term, pos token.Pos, resT types.Type) (Value, bool) {
	u := fr.u
	switch full {
	case "(*github.com/jackc/pgx/v4/pgxpool.Pool).BeginFunc":
		// A-tx: BeginFunc runs the closure inside a transaction; it returns nil only if the closure
		// returned nil and the commit succeeded (ghost event "commit"), otherwise nothing is committed.
		if len(args) != 3 {
			return nil, false
		}
		if p, ok := args[0].(PtrV); ok {
			u.oblige(fr, "nil-deref", pos, "", pc, Ne(p.Base, IntLit(0)))
		}
		f, ok := args[2].(FuncV)
		fnc, isFn := f.Fn.(*ssa.Function)
		if !ok || !isFn {
			return nil, false
		}
		u.extUsed["A-tx:pgxpool.Pool.BeginFunc"] = true
		txT := fnc.Signature.Params().At(0).Type()
		txv := u.m.FreshValue(st, "tx", txT)
		if iv, ok := txv.(IfaceV); ok {
			u.c.Assume(Ne(iv.Tag, IntLit(0)))
		}
		var cres Value
		if fr.depth < maxInlineDepth {
			cres = fr.inline(fnc, f.Bindings, []Value{txv}, st, pc, pos, fnc.Signature.Results().At(0).Type())
		} else {
			cres = u.m.FreshValue(st, "txres", fnc.Signature.Results().At(0).Type())
		}
		res := u.m.FreshValue(st, "beginfunc", resT).(IfaceV)
		if ci, ok := cres.(IfaceV); ok {
			u.c.Assume(Imp(pc, Imp(Eq(res.Tag, IntLit(0)), Eq(ci.Tag, IntLit(0)))))
		}
		nkey := "ev|commit|n"
		cnt, have := st.ghost[nkey]
		if !have {
			cnt = u.ghostInit(nkey)
		}
		st.ghost[nkey] = u.c.Def("evn", Add(cnt, Ite(Eq(res.Tag, IntLit(0)), IntLit(1), IntLit(0))))
		return res, true
	}
	return nil, false
}

// ---------------------------------------------------------------------------------------------
// loop invariant candidates

// invNames builds the name environment for invariants at a loop header.
func (fr *Frame) invNames(li *loopInfo, st *State, phi map[*ssa.Phi]Value) map[string]SVal {
	u := fr.u
	names := map[string]SVal{}
	for _, p := range fr.fn.Params {
		names[p.Name()] = SVal{V: fr.val(p), T: p.Type()}
	}
	// free variables of closures
	for i, fv := range fr.fn.FreeVars {
		if i < len(fr.freeVars) {
			// free vars are pointers to the captured variable
			if pv, ok := fr.freeVars[i].(PtrV); ok {
				names[fv.Name()] = SVal{V: u.m.Load(st, pv), T: fv.Type().(*types.Pointer).Elem()}
			}
		}
	}
	doms := fr.localNames(li.header, false, st, names)
	_ = sort.Strings
	for _, b := range doms[:0] {
		for _, ins := range b.Instrs {
			dr, ok := ins.(*ssa.DebugRef)
			if !ok {
				continue
			}
			id := exprIdentName(dr)
			if id == "" {
				continue
			}
			v, have := fr.env[dr.X]
			if !have {
				if _, isC := dr.X.(*ssa.Const); isC {
					v = fr.val(dr.X)
				} else {
					continue
				}
			}
			if dr.IsAddr {
				if pv, ok := v.(PtrV); ok {
					names[id] = SVal{V: u.m.Load(st, pv), T: dr.X.Type().(*types.Pointer).Elem()}
				}
			} else {
				names[id] = SVal{V: v, T: dr.X.Type()}
			}
		}
	}
	// loop-carried variables of enclosing loops
	for _, b := range doms {
		for _, ins := range b.Instrs {
			p, ok := ins.(*ssa.Phi)
			if !ok {
				break
			}
			if v, have := fr.env[p]; have && p.Comment != "" {
				names[p.Comment] = SVal{V: v, T: p.Type()}
			}
		}
	}
	for _, ins := range li.header.Instrs {
		p, ok := ins.(*ssa.Phi)
		if !ok {
			break
		}
		var v Value
		if phi != nil {
			if pv, ok := phi[p]; ok {
				v = pv
			}
		}
		if v == nil {
			v = fr.env[p]
		}
		if v == nil {
			continue
		}
		if p.Comment != "" {
			names[p.Comment] = SVal{V: v, T: p.Type()}
		}
		names[p.Name()] = SVal{V: v, T: p.Type()}
	}
	// a `for _, x := range xs` loop rewritten as `for i := 0; i < len(xs); i++` has no rangeindex; the number of
	// completed iterations is i, so rangeindex (index of the last completed element) is i - 1
	if _, have := names["rangeindex"]; !have {
		var cand []Term
		for _, ins := range li.header.Instrs {
			p, ok := ins.(*ssa.Phi)
			if !ok {
				break
			}
			if _, _, isInt := intBits(p.Type()); !isInt || len(p.Edges) != 2 {
				continue
			}
			okInit, okStep := false, false
			for i, e := range p.Edges {
				if isBackEdge(li.header.Preds[i], li.header) {
					if bo, ok := e.(*ssa.BinOp); ok && bo.Op == token.ADD && bo.X == ssa.Value(p) {
						if c, ok := bo.Y.(*ssa.Const); ok && c.Value != nil && c.Int64() == 1 {
							okStep = true
						}
					}
				} else if c, ok := e.(*ssa.Const); ok && c.Value != nil && c.Int64() == 0 {
					okInit = true
				}
			}
			if okInit && okStep {
				if sv, ok := names[p.Name()]; ok {
					if sc, ok := sv.V.(Scalar); ok {
						cand = append(cand, sc.T)
					}
				}
			}
		}
		if len(cand) == 1 {
			names["rangeindex"] = SVal{V: Scalar{Sub(cand[0], IntLit(1))}, T: types.Typ[types.Int]}
		}
	}
	// the converse rewrite: a counting loop `for i := 0; i < len(xs); i++` turned into `for i, x := range xs`.
	// The key variable i is then defined inside the body as rangeindex+1; at the cut point it stands for the
	// number of completed iterations, which is rangeindex+1 as well.
	for _, b := range sortedBlocks(li.blocks) {
		for _, ins := range b.Instrs {
			dr, ok := ins.(*ssa.DebugRef)
			if !ok {
				continue
			}
			id := identOf(dr)
			if id == "" {
				continue
			}
			if _, have := names[id]; have {
				continue
			}
			bo, ok := dr.X.(*ssa.BinOp)
			if !ok || bo.Op != token.ADD {
				continue
			}
			ph, ok := bo.X.(*ssa.Phi)
			c, ok2 := bo.Y.(*ssa.Const)
			if !ok || !ok2 || ph.Block() != li.header || ph.Comment != "rangeindex" || c.Value == nil || c.Int64() != 1 {
				continue
			}
			if sv, ok := names["rangeindex"]; ok {
				if sc, ok := sv.V.(Scalar); ok {
					names[id] = SVal{V: Scalar{Add(sc.T, IntLit(1))}, T: dr.X.Type()}
				}
			}
		}
	}
	u.applyAliases(names) // after the loop-carried values: an aliased name must see the phi value too
	return names
}

func exprIdentName(dr *ssa.DebugRef) string {
	type namer interface{ String() string }
	if dr.Expr == nil {
		return ""
	}
	if id, ok := dr.Expr.(interface{ End() token.Pos }); ok {
		_ = id
	}
	return identOf(dr)
}

func (fr *Frame) buildCandidates(li *loopInfo, phiEntry map[*ssa.Phi]Value) []*Candidate {
	u := fr.u
	var out []*Candidate
	add := func(text string, auto bool, eval func(fr *Frame, st *State, phi map[*ssa.Phi]Value, hyp bool) (Term, error)) {
		flag := u.c.Fresh("inv_on", SBool)
		cd := &Candidate{ID: len(u.cands) + 1, Flag: flag.S, Text: text, Auto: auto, LoopID: li.id, Eval: eval}
		u.cands = append(u.cands, cd)
		out = append(out, cd)
	}
	// user invariants of the unit's contract (top frame only)
	if fr.parent == nil && u.spec != nil {
		hdrNames := map[string]bool{}
		for _, ins := range li.header.Instrs {
			if p, ok := ins.(*ssa.Phi); ok {
				if p.Comment != "" {
					hdrNames[p.Comment] = true
				}
				hdrNames[p.Name()] = true
			}
		}
		for _, inv := range u.spec.Invs {
			inv := inv
			ids := map[string]bool{}
			identsOf(inv.E, ids)
			// placement: an invariant belongs to the loops where all of its names resolve; if it names a
			// loop-carried variable it belongs only to loops carrying that variable
			probe := fr.invNames(li, u.entrySt, phiEntry)
			resolvable := true
			mentionsHdr := false
			for id := range ids {
				if _, ok := probe[id]; !ok {
					_, isConst := u.eng.specs.Consts[id]
					isMember := false
					if u.fn.Pkg != nil {
						_, isMember = u.fn.Pkg.Members[id]
					}
					if !isConst && !isMember {
						resolvable = false
					}
				}
				if hdrNames[id] {
					mentionsHdr = true
				}
			}
			if !resolvable {
				continue
			}
			if inv.Loop != 0 && inv.Loop != li.ord {
				continue
			}
			_ = mentionsHdr
			u.placedInv[inv.Text] = true
			add(inv.Text, false, func(fr *Frame, st *State, phi map[*ssa.Phi]Value, hyp bool) (Term, error) {
				env := &SpecEnv{u: u, st: st, old: u.entrySt, names: fr.invNames(li, st, phi), fn: u.fn}
				if hyp {
					return env.evalHyp(inv.E)
				}
				return env.evalGoal(inv.E)
			})
		}
	}
	// automatic candidates
	phiVal := func(fr *Frame, p *ssa.Phi, phi map[*ssa.Phi]Value) (Term, bool) {
		var v Value
		if phi != nil {
			v = phi[p]
		}
		if v == nil {
			v = fr.env[p]
		}
		s, ok := v.(Scalar)
		if !ok {
			return Term{}, false
		}
		return s.T, true
	}
	invariantVal := func(v ssa.Value) bool {
		switch x := v.(type) {
		case *ssa.Const, *ssa.Parameter, *ssa.FreeVar:
			return true
		case ssa.Instruction:
			return !li.blocks[x.Block()]
		}
		return false
	}
	for _, ins := range li.header.Instrs {
		p, ok := ins.(*ssa.Phi)
		if !ok {
			break
		}
		if _, _, isInt := intBits(p.Type()); isInt {
			// monotone counters: phi = init on entry, phi + c on back edges
			var step int64
			mono := true
			var initV ssa.Value
			for i, e := range p.Edges {
				if isBackEdge(li.header.Preds[i], li.header) {
					bo, ok := e.(*ssa.BinOp)
					if !ok || (bo.Op != token.ADD && bo.Op != token.SUB) || bo.X != ssa.Value(p) {
						mono = false
						continue
					}
					c, ok := bo.Y.(*ssa.Const)
					if !ok || c.Value == nil {
						mono = false
						continue
					}
					k := c.Int64()
					if bo.Op == token.SUB {
						k = -k
					}
					if step != 0 && (step > 0) != (k > 0) {
						mono = false
					}
					step = k
				} else {
					initV = e
				}
			}
			if mono && step != 0 && initV != nil && invariantVal(initV) {
				iv := initV
				if step > 0 {
					add(fmt.Sprintf("auto: %s >= %s", phiLabel(p), iv.Name()), true, func(fr *Frame, st *State, phi map[*ssa.Phi]Value, hyp bool) (Term, error) {
						t, ok := phiVal(fr, p, phi)
						i0, ok2 := fr.val(iv).(Scalar)
						if !ok || !ok2 {
							return Term{}, fmt.Errorf("n/a")
						}
						return Ge(t, i0.T), nil
					})
				} else {
					add(fmt.Sprintf("auto: %s <= %s", phiLabel(p), iv.Name()), true, func(fr *Frame, st *State, phi map[*ssa.Phi]Value, hyp bool) (Term, error) {
						t, ok := phiVal(fr, p, phi)
						i0, ok2 := fr.val(iv).(Scalar)
						if !ok || !ok2 {
							return Term{}, fmt.Errorf("n/a")
						}
						return Le(t, i0.T), nil
					})
				}
			}
			// bounds from comparisons in the loop against loop-invariant values
			for _, b := range sortedBlocks(li.blocks) {
				for _, in2 := range b.Instrs {
					bo, ok := in2.(*ssa.BinOp)
					if !ok {
						continue
					}
					if bo.Op != token.LSS && bo.Op != token.LEQ && bo.Op != token.GTR && bo.Op != token.GEQ {
						continue
					}
					for side := 0; side < 2; side++ {
						x, y := bo.X, bo.Y
						op := bo.Op
						if side == 1 {
							x, y = y, x
							op = map[token.Token]token.Token{token.LSS: token.GTR, token.LEQ: token.GEQ, token.GTR: token.LSS, token.GEQ: token.LEQ}[op]
						}
						var k int64
						derived := false
						if x == ssa.Value(p) {
							derived = true
						} else if b2, ok := x.(*ssa.BinOp); ok && b2.Op == token.ADD && b2.X == ssa.Value(p) {
							if c, ok := b2.Y.(*ssa.Const); ok && c.Value != nil {
								k, derived = c.Int64(), true
							}
						}
						// the bound may also be len(s) of a loop-invariant slice, recomputed in the header
						var lenArg ssa.Value
						var lenField *ssa.FieldAddr // len(p.f) with p loop invariant: the field is read from the state at the cut point
						if cl, ok := y.(*ssa.Call); ok {
							if bi, ok := cl.Call.Value.(*ssa.Builtin); ok && bi.Name() == "len" && len(cl.Call.Args) == 1 {
								if _, isSlice := cl.Call.Args[0].Type().Underlying().(*types.Slice); isSlice {
									if invariantVal(cl.Call.Args[0]) {
										lenArg = cl.Call.Args[0]
									} else if ld, ok := cl.Call.Args[0].(*ssa.UnOp); ok && ld.Op == token.MUL {
										if fa, ok := ld.X.(*ssa.FieldAddr); ok && invariantVal(fa.X) {
											lenArg, lenField = cl.Call.Args[0], fa
										}
									}
								}
							}
						}
						if !derived || (!invariantVal(y) && lenArg == nil) {
							continue
						}
						yv := y
						for _, kk := range uniq64(0, k) {
							kk := kk
							for _, strict := range []bool{true, false} {
								strict := strict
								less := op == token.LSS || op == token.LEQ
								rel := "<="
								if strict {
									rel = "<"
								}
								if !less {
									rel = ">="
									if strict {
										rel = ">"
									}
								}
								add(fmt.Sprintf("auto: %s+%d %s %s", phiLabel(p), kk, rel, yv.Name()), true, func(fr *Frame, st *State, phi map[*ssa.Phi]Value, hyp bool) (Term, error) {
									t, ok := phiVal(fr, p, phi)
									var b0 Scalar
									ok2 := false
									if lenField != nil {
										if bp, isP := fr.val(lenField.X).(PtrV); isP {
											q := bp
											q.Path = append(append([]int{}, bp.Path...), lenField.Field)
											if sv, isS := fr.u.loadNoAssume(st, q).(SliceV); isS {
												b0, ok2 = Scalar{sv.Len}, true
											}
										}
									} else if lenArg != nil {
										if sv, isS := fr.val(lenArg).(SliceV); isS {
											b0, ok2 = Scalar{sv.Len}, true
										}
									} else {
										b0, ok2 = fr.val(yv).(Scalar)
									}
									if !ok || !ok2 {
										return Term{}, fmt.Errorf("n/a")
									}
									l := Add(t, IntLit(kk))
									switch rel {
									case "<":
										return Lt(l, b0.T), nil
									case "<=":
										return Le(l, b0.T), nil
									case ">":
										return Gt(l, b0.T), nil
									}
									return Ge(l, b0.T), nil
								})
							}
						}
					}
				}
			}
		}
	}
	// accumulator slices: len(S) == I + d for append-updated slice phis and counter phis
	for _, ins := range li.header.Instrs {
		sp, ok := ins.(*ssa.Phi)
		if !ok {
			break
		}
		if _, isSlice := sp.Type().Underlying().(*types.Slice); !isSlice {
			continue
		}
		for _, ins2 := range li.header.Instrs {
			ip, ok := ins2.(*ssa.Phi)
			if !ok {
				break
			}
			if _, _, isInt := intBits(ip.Type()); !isInt {
				continue
			}
			add(fmt.Sprintf("auto: len(%s) - %s constant", phiLabel(sp), phiLabel(ip)), true, func(fr *Frame, st *State, phi map[*ssa.Phi]Value, hyp bool) (Term, error) {
				var sv Value
				if phi != nil {
					sv = phi[sp]
				}
				if sv == nil {
					sv = fr.env[sp]
				}
				s, ok := sv.(SliceV)
				it, ok2 := phiVal(fr, ip, phi)
				e0 := fr.hdrEntryPhi[li.header]
				if !ok || !ok2 || e0 == nil {
					return Term{}, fmt.Errorf("n/a")
				}
				s0, ok3 := e0[sp].(SliceV)
				i0, ok4 := e0[ip].(Scalar)
				if !ok3 || !ok4 {
					return Term{}, fmt.Errorf("n/a")
				}
				return Eq(Sub(s.Len, it), Sub(s0.Len, i0.T)), nil
			})
		}
	}
	// map iterations: visited keys are keys of the map
	return out
}

func uniq64(a, b int64) []int64 {
	if a == b {
		return []int64{a}
	}
	return []int64{a, b}
}

func phiLabel(p *ssa.Phi) string {
	if p.Comment != "" {
		return p.Comment
	}
	return p.Name()
}

// inv2loop parses an optional "@N" loop ordinal prefix; not used by default.
func inv2loop(text string) (int, bool) {
	return 0, false
}

// localNames adds named source locals visible at block `at` (DebugRefs in dominating blocks, later
// ones win; with inclusive also those of `at` itself) to names and returns the dominating blocks.
func (fr *Frame) localNames(at *ssa.BasicBlock, inclusive bool, st *State, names map[string]SVal) []*ssa.BasicBlock {
	u := fr.u
	declPos := map[string]token.Pos{}
	var doms []*ssa.BasicBlock
	for _, b := range fr.fn.Blocks {
		if (b != at || inclusive) && b.Dominates(at) {
			doms = append(doms, b)
		}
	}
	sort.Slice(doms, func(i, j int) bool { return doms[i] != doms[j] && doms[i].Dominates(doms[j]) })
	for _, b := range doms {
		for _, ins := range b.Instrs {
			dr, ok := ins.(*ssa.DebugRef)
			if !ok {
				continue
			}
			id := identOf(dr)
			if id == "" {
				continue
			}
			v, have := fr.env[dr.X]
			if !have {
				if _, isC := dr.X.(*ssa.Const); isC {
					v = fr.val(dr.X)
				} else {
					continue
				}
			}
			// several source variables may share a name (shadowing): the outermost declaration wins
			if obj := dr.Object(); obj != nil {
				if prev, seen := declPos[id]; seen && obj.Pos() > prev {
					continue
				}
				declPos[id] = obj.Pos()
			}
			if dr.IsAddr {
				if pv, ok := v.(PtrV); ok {
					names[id] = SVal{V: u.loadNoAssume(st, pv), T: dr.X.Type().(*types.Pointer).Elem()}
				}
			} else {
				names[id] = SVal{V: v, T: dr.X.Type()}
			}
		}
	}
	u.applyAliases(names)
	return doms
}

// frameCheckPtr: a callee's object-precise footprint must lie inside the caller's frame.
func (u *Unit) frameCheckPtr(fr *Frame, st *State, pc Term, p PtrV, pos token.Pos, callee string) {
	if u.spec == nil || u.discov > 0 || u.spec.Opts["frame"] == "off" {
		return
	}
	allowed := u.assignSet()
	if allowed == nil {
		return
	}
	for _, lf := range leaves(p.pointee()) {
		n, _ := compName(p, lf.Path)
		if !allowed[n] {
			u.oblige(fr, "frame", pos, fmt.Sprintf("callee %s assigns %s", callee, n), pc, Ge(p.Base, u.entrySt.alloc))
			return
		}
	}
}

// havocMapObject forgets the entries of one map object.
func (u *Unit) havocMapObject(fr *Frame, st *State, pc Term, mt *types.Map, mref Term, pos token.Pos, callee string) {
	ks := mapKeySort(mt)
	names := []compRef{{u.mapDomName(mt), ArrSort(SInt, ArrSort(ks, SBool))}, {u.mapLenName(mt), SArrI}}
	for _, lf := range leaves(mt.Elem()) {
		u.m.markRef(u.mapValName(mt, lf.Path), lf.Kind)
		names = append(names, compRef{u.mapValName(mt, lf.Path), ArrSort(SInt, ArrSort(ks, lf.Sort))})
	}
	if u.spec != nil && u.discov == 0 && u.spec.Opts["frame"] != "off" {
		if allowed := u.assignSet(); allowed != nil && !allowed[names[0].Name] {
			u.oblige(fr, "frame", pos, fmt.Sprintf("callee %s assigns map object of %s", callee, names[0].Name), pc, Ge(mref, u.entrySt.alloc))
		}
	}
	for _, cn := range names {
		comp := u.m.comp(st, cn.Name, cn.Sort)
		inner := u.c.Fresh("hv_mapobj", arrValSort(cn.Sort))
		u.m.noteWrite(cn.Name, mref)
		st.heap[cn.Name] = u.c.Def(cn.Name, Store(comp, mref, inner))
	}
	ln := u.mapLen(st, mt, mref)
	_ = ln
}

// sortedBlocks returns the blocks of a set in index order (candidate invariants are generated while walking them;
// the text of the verification conditions must not depend on map iteration order).
func sortedBlocks(m map[*ssa.BasicBlock]bool) []*ssa.BasicBlock {
	out := make([]*ssa.BasicBlock, 0, len(m))
	for b := range m {
		out = append(out, b)
	}
	sort.Slice(out, func(i, j int) bool { return out[i].Index < out[j].Index })
	return out
}
